#!/venv/bin/python
"""tools_seeded.py WORKTREE CHANGE_DIR SEEDED_ID PROPS TESTS... - confirm an independently written breaking change
(demo passes on the clean worktree and fails with the patch; the listed repository tests pass with the patch), run
the listed checks against the patched worktree (WDSIM_SRC) and file everything under /verif/seeded/SEEDED_ID/."""
import json, os, shutil, subprocess, sys
wt, cdir, sid, props = sys.argv[1], sys.argv[2], sys.argv[3], sys.argv[4].split(",")
tests = sys.argv[5:]
budget = os.environ.get("SEEDED_BUDGET", "25")
env = dict(os.environ, PYTHONPATH=wt + "/src")
def sh(cmd, **kw):
    return subprocess.run(cmd, shell=True, capture_output=True, text=True, errors="replace", **kw)
assert sh(f"git -C {wt} status --short --untracked-files=no").stdout.strip() == "", "worktree not clean"
r0 = sh(f"/venv/bin/python {cdir}/demo.py", env=env, cwd=wt, timeout=600)
assert sh(f"git -C {wt} apply {cdir}/patch.diff").returncode == 0
try:
    r1 = sh(f"/venv/bin/python {cdir}/demo.py", env=env, cwd=wt, timeout=600)
    t = sh(f"/venv/bin/python -m pytest -q -p no:cacheprovider --timeout=600 " + " ".join(tests), env=env, cwd=wt, timeout=1800)
    tests_line = (t.stdout.strip().splitlines() or ["?"])[-1]
    results = {}
    for p in props:
        e = dict(os.environ, WDSIM_SRC=wt + "/src", WDSIM_NO_EVIDENCE="1", WDSIM_REPLAY_DIR=f"/dev/shm/seeded-replays-{sid}")
        c = sh(f"/verif/check {p} --budget {budget}", env=e, cwd="/verif", timeout=3600)
        sigs = [l.strip()[:300] for l in c.stdout.splitlines() if l.strip().startswith("signature=")]
        results[p] = {"exit": c.returncode, "caught": c.returncode == 1 and "VIOLATION property=" in c.stdout, "signatures": sigs[:4]}
        print(sid, p, results[p]["caught"], sigs[:1])
    shutil.rmtree(f"/dev/shm/seeded-replays-{sid}", ignore_errors=True)
finally:
    sh(f"git -C {wt} checkout -- .")
print("demo clean exit", r0.returncode, "patched exit", r1.returncode, "tests:", tests_line)
ok = r0.returncode == 0 and r1.returncode != 0 and t.returncode == 0
dest = f"/verif/seeded/{sid}"
os.makedirs(dest, exist_ok=True)
shutil.copy(f"{cdir}/patch.diff", dest); shutil.copy(f"{cdir}/demo.py", dest)
meta = json.load(open(f"{cdir}/meta.json"))
meta["confirmed"] = {"demo_exit_unchanged": r0.returncode, "demo_exit_patched": r1.returncode, "repository_tests_with_patch": tests_line, "tests_run": tests, "confirmed_ok": ok}
meta["checks"] = results
meta["caught_by"] = sorted(p for p, r in results.items() if r["caught"])
json.dump(meta, open(f"{dest}/meta.json", "w"), indent=1)
print("filed", dest, "confirmed", ok, "caught_by", meta["caught_by"])
