#!/usr/bin/env python3
"""Regenerates the seeded-changes table in DESIGN.md (between the markers) from seeded/*/meta.json."""
import glob, json, re
rows = []
for d in sorted(glob.glob('/verif/seeded/*/meta.json')):
    m = json.load(open(d)); sid = d.split('/')[-2]
    rows.append((sid, m.get('property'), (m.get('summary') or '')[:150].replace('\n', ' ').replace('|', '/'), ','.join(m.get('caught_by', [])), 'yes' if m.get('history') else 'no'))
tab = "| id | breaks | change | caught by | needed strengthening first |\n|----|--------|--------|-----------|----|\n" + "\n".join(f"| {a} | {b} | {c} | {d} | {e} |" for a, b, c, d, e in rows)
s = open('/verif/DESIGN.md').read()
i = s.index("| id | breaks | change | caught by |")
j = s.index("### 9.7 Evidence")
s = s[:i] + tab + "\n\n" + s[j:]
open('/verif/DESIGN.md', 'w').write(s)
print(len(rows), "seeded changes;", sum(1 for r in rows if r[4] == 'yes'), "needed strengthening;", sum(1 for r in rows if not r[3]), "uncaught")
