"""Property id -> scenario object."""
import importlib

_MODULES = {
    "C16": ("scen_c16", "C16"),
    "C17": ("scen_c17", "C17"),
}


def get(prop):
    mod, cls = _MODULES[prop]
    m = importlib.import_module(f"wdsim.{mod}")
    return getattr(m, cls)()


def all_props():
    return sorted(_MODULES)
