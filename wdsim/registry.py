"""Property id -> scenario object."""
import importlib

_MODULES = {
    "C01": ("scen_fs", "C01"),
    "C02": ("scen_fs", "C02"),
    "C03": ("scen_fs", "C03"),
    "C04": ("scen_api", "C04"),
    "C05": ("scen_api", "C05"),
    "C06": ("scen_api", "C06"),
    "C07": ("scen_fs", "C07"),
    "C08": ("scen_c08", "C08"),
    "C10": ("scen_c10", "C10"),
    "C11": ("scen_fs", "C11"),
    "C12": ("scen_c12", "C12"),
    "C13": ("scen_api", "C13"),
    "C14": ("scen_fs", "C14"),
    "C16": ("scen_c16", "C16"),
    "C18": ("scen_c18", "C18"),
    "C19": ("scen_fs", "C19"),
    "C20": ("scen_c20", "C20"),
    "C17": ("scen_c17", "C17"),
}


def get(prop):
    mod, cls = _MODULES[prop]
    m = importlib.import_module(f"wdsim.{mod}")
    return getattr(m, cls)()


def all_props():
    return sorted(_MODULES)
