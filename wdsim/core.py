"""Deterministic scheduler: baton-passing real threads, seeded choice, virtual time.

One task runs at a time; every other task is parked on a private gate lock.  The running task
reaches a yield point, runs the pick function itself and hands the baton over directly.
All choices are drawn from one PRNG stream (or taken from a recorded trace in replay mode).
See DESIGN.md section 2.1.
"""
from __future__ import annotations

import _thread
import hashlib
import math
import random
import sys
import traceback

TICKS = 1024  # virtual clock resolution: 1/1024 s
EPOCH = 1_700_000_000.0  # exact in a double together with k/1024 fractions

NEW, RUNNABLE, BLOCKED, DONE = "N", "R", "B", "D"


class SimAbort(BaseException):
    """Raised inside parked tasks when the run is over (never caught by library code)."""


def to_ticks(seconds):
    """Round a timeout *up* to the next tick (a timed wait never returns early)."""
    if seconds <= 0:
        return 0
    return int(math.ceil(seconds * TICKS - 1e-9))


class Task:
    __slots__ = (
        "tid", "name", "kind", "fn", "gate", "fin", "state", "pred", "deadline", "timed_out", "why",
        "exc", "thread_obj", "prio", "is_drain", "started_real", "stall",
    )

    def __init__(self, tid, name, kind, fn):
        self.tid, self.name, self.kind, self.fn = tid, name, kind, fn
        self.gate = _thread.allocate_lock()
        self.gate.acquire()
        self.fin = _thread.allocate_lock()
        self.fin.acquire()
        self.state = NEW
        self.pred = None
        self.deadline = None
        self.timed_out = False
        self.why = None
        self.exc = None
        self.thread_obj = None
        self.prio = 0.0
        self.is_drain = False
        self.started_real = False
        self.stall = 0

    def __repr__(self):
        return f"<Task {self.tid} {self.name} {self.state} {self.why}>"


class Sim:
    """cfg keys: policy ('sticky'|'random'|'pct'), p_switch, p_line, pct_depth, pct_k, step_cap,
    horizon (virtual seconds)."""

    def __init__(self, seed, cfg=None, trace=None):
        cfg = dict(cfg or {})
        self.cfg = cfg
        self.seed = seed
        self.rng = random.Random(f"{seed}:sched")
        self.policy = cfg.get("policy", "sticky")
        self.p_switch = cfg.get("p_switch", 0.3)
        self.p_line = cfg.get("p_line", 0.0)
        self.step_cap = cfg.get("step_cap", 200_000)
        self.horizon = int(cfg.get("horizon", 3600) * TICKS)
        self.replaying = trace is not None
        self.trace_in = {int(k): v for k, v in (trace or {}).items()}
        self.trace_out = {}
        self.tasks = []
        self.cur = None
        self.now = 0  # ticks
        self.steps = 0
        self.decisions = 0
        self.switches = 0
        self.preemptions = 0
        self.line_events = 0
        self.quiet_depth = 0  # > 0 while a comparison dunder runs (no pre-emption points, see instrument.py)
        self.free_statements = 0
        self.free_statement_cap = cfg.get("statement_cap", 3_000_000)
        self.seq = 0  # global logical clock for history records
        self.log = []
        self.keep_log = cfg.get("keep_log", True)
        self.hash = hashlib.blake2b(digest_size=10)
        self.main_gate = _thread.allocate_lock()
        self.main_gate.acquire()
        self.verdict = None  # None | (kind, info)
        self.ended = False
        self.aborting = False
        self.abort_initiator = None
        self.uncaught = []
        self.alive_at_end = []
        self.monitor_on = False
        self._line_countdown = self._draw_countdown()
        # PCT
        self.pct_depth = cfg.get("pct_depth", 2)
        self.pct_k = cfg.get("pct_k", 300)
        self._pct_points = []
        if self.policy == "pct":
            self._pct_points = sorted(self.rng.randrange(1, max(2, self.pct_k)) for _ in range(max(0, self.pct_depth - 1)))
        self._pct_low = 0
        # stall fault: (task name prefix, start step, length)
        self.stall_plan = cfg.get("stall")
        self.fault_counts = {}
        self.clock_jumps = [tuple(j) for j in cfg.get("clock_jumps", [])]
        self._jumps_seen = set()
        self.probes = {}

    # ------------------------------------------------------------------ logging
    def rec(self, *a):
        """Append to the canonical event log (never draws from a PRNG, never reads a clock)."""
        self.hash.update(repr(a).encode("utf-8", "backslashreplace"))
        if self.keep_log:
            self.log.append(a)

    def next_seq(self):
        self.seq += 1
        return self.seq

    def probe(self, name, n=1):
        self.probes[name] = self.probes.get(name, 0) + n

    def fault_fired(self, name, n=1):
        self.fault_counts[name] = self.fault_counts.get(name, 0) + n

    def digest(self):
        h = self.hash.copy()
        h.update(repr(sorted(self.trace_out.items())).encode())
        return h.hexdigest()

    def wall_offset(self):
        """Sum of the planned wall-clock steps (cfg["clock_jumps"] = [[at_tick, delta_ticks], ...]) that have happened by now:
        the "clock jump" fault (NTP step, suspend/resume, an operator setting the date).  Counted as fired when the code
        under test reads either clock after the step."""
        off = 0
        for i, (at, delta) in enumerate(self.clock_jumps):
            if at <= self.now:
                off += delta
                if i not in self._jumps_seen:
                    self._jumps_seen.add(i)
                    self.fault_fired("clock_jump_fwd" if delta > 0 else "clock_jump_back")
        return off

    def time(self):
        return EPOCH + (self.now + self.wall_offset()) / TICKS

    def monotonic(self):
        if self.clock_jumps:
            self.wall_offset()
        return self.now / TICKS

    def _draw_countdown(self):
        p = self.p_line
        if p <= 0:
            return 1 << 60
        if p >= 1:
            return 1
        # geometric
        u = self.rng.random()
        return 1 + int(math.log(1.0 - u) / math.log(1.0 - p))

    # ------------------------------------------------------------------ tasks
    def spawn(self, fn, name, kind="lib"):
        t = Task(len(self.tasks), name, kind, fn)
        self.tasks.append(t)
        t.state = RUNNABLE
        if self.policy == "pct":
            t.prio = 1.0 + self.rng.random()
        _thread.start_new_thread(self._tramp, (t,))
        return t

    def _tramp(self, t):
        t.gate.acquire()  # wait for the baton
        t.started_real = True
        try:
            if not self.aborting:
                t.fn()
        except SimAbort:
            pass
        except BaseException as e:  # noqa: BLE001
            t.exc = e
            if not self.aborting:
                tb = traceback.extract_tb(e.__traceback__)
                where = [(f.filename.rsplit("/", 2)[-1], f.lineno, f.name) for f in tb[-3:]]
                # did the exception come out of the library (possibly through a simulated primitive or the stdlib)?
                in_lib = False
                for f in reversed(tb):
                    if "/wdsim/" in f.filename or "/lib/python" in f.filename:
                        continue
                    in_lib = "/watchdog/" in f.filename
                    break
                self.uncaught.append({"task": t.name, "kind": t.kind, "exc": type(e).__name__, "msg": str(e)[:200], "where": where, "in_lib": in_lib})
                self.rec("uncaught", t.name, type(e).__name__)
        finally:
            t.state = DONE
            if self.aborting:
                t.fin.release()
            else:
                self.rec("done", t.tid)
                try:
                    self._finish(t)
                except SimAbort:
                    pass
                t.fin.release()

    def _finish(self, t):
        # run ends when every actor task is done
        if t.kind == "actor" and all(x.state == DONE for x in self.tasks if x.kind == "actor"):
            self._end_run(None, t)
            return
        self.steps += 1
        self._switch(t)

    def _end_run(self, verdict, me):
        """Called by the running task.  Never returns normally for a live task."""
        if self.ended:
            return
        self.ended = True
        if verdict is not None and self.verdict is None:
            self.verdict = verdict
        self.alive_at_end = [(t.name, t.kind, t.state, t.why) for t in self.tasks if t.state != DONE and t is not me]
        self.aborting = True
        self.abort_initiator = me
        self.main_gate.release()
        if me is not None and me.state != DONE:
            raise SimAbort

    # ------------------------------------------------------------------ picking
    def _runnable(self):
        out = []
        for t in self.tasks:
            s = t.state
            if s == RUNNABLE:
                out.append(t)
            elif s == BLOCKED and t.pred is not None and not t.is_drain and t.pred():
                out.append(t)
        if not out:
            # drain waiters become runnable only when everybody else is idle without deadline
            for t in self.tasks:
                if t.state == BLOCKED and t.is_drain and self._is_quiescent(t):
                    out.append(t)
        return out

    def _is_quiescent(self, me):
        for t in self.tasks:
            if t is me or t.state == DONE or t.is_drain:
                continue
            if t.state != BLOCKED:
                return False
            if t.deadline is not None:
                return False
        return True

    def _choose(self, r, me):
        default = me if (me is not None and me in r) else r[0]
        self.decisions += 1
        if self.replaying:
            tid = self.trace_in.get(self.steps)
            if tid is not None:
                for t in r:
                    if t.tid == tid:
                        if t is not default:
                            self.trace_out[self.steps] = tid
                        return t
            return default
        # stall fault: a task (by name prefix) is not chosen while others can run
        if self.stall_plan is not None:
            pref, start, length = self.stall_plan
            if start <= self.steps < start + length:
                rr = [t for t in r if not t.name.startswith(pref)]
                if rr and len(rr) < len(r):
                    self.fault_fired("stall")
                    r = rr
                    if len(r) == 1:
                        if r[0] is not default:
                            self.trace_out[self.steps] = r[0].tid
                        return r[0]
        if self.policy == "pct":
            self._pct_tick()
            choice = max(r, key=_prio)
        elif self.policy == "random":
            choice = r[self.rng.randrange(len(r))]
        else:  # sticky
            if default is me and self.rng.random() >= self.p_switch:
                choice = me
            else:
                choice = r[self.rng.randrange(len(r))]
        if choice is not default:
            self.trace_out[self.steps] = choice.tid
        return choice

    def _pct_tick(self):
        pts = self._pct_points
        while pts and pts[0] <= self.steps:
            pts.pop(0)
            self.fault_fired("pct_change_point")
            if self.cur is not None and self.cur.state != DONE:
                self._pct_low -= 1
                self.cur.prio = float(self._pct_low)

    def _pick(self, me):
        while True:
            r = self._runnable()
            if r:
                if len(r) == 1:
                    return r[0]
                return self._choose(r, me)
            timed = [t for t in self.tasks if t.state == BLOCKED and t.deadline is not None]
            if not timed:
                return None
            dl = min(t.deadline for t in timed)
            if dl > self.now:
                self.now = dl
            if self.now > self.horizon:
                return "horizon"
            for t in timed:
                if t.deadline <= self.now:
                    t.timed_out = True
                    t.state = RUNNABLE
                    t.pred = None
                    t.deadline = None
                    t.is_drain = False
            self.rec("tick", self.now)

    def _switch(self, me):
        """Give the baton away.  `me` is the running task (RUNNABLE, BLOCKED or DONE)."""
        nxt = self._pick(me if me.state == RUNNABLE else None)
        if nxt is None:
            live = [(t.name, t.kind, str(t.why)) for t in self.tasks if t.state != DONE]
            self._end_run(("deadlock", live), me)
            return
        if nxt == "horizon":
            live = [(t.name, t.kind, str(t.why)) for t in self.tasks if t.state != DONE]
            self._end_run(("horizon", live), me)
            return
        if nxt.state == BLOCKED:
            nxt.state = RUNNABLE
            nxt.pred = None
            nxt.deadline = None
            nxt.timed_out = False
            nxt.is_drain = False
        if nxt is me:
            return
        self.cur = nxt
        self.switches += 1
        nxt.gate.release()
        if me.state != DONE:
            me.gate.acquire()
            if self.aborting:
                raise SimAbort

    # ------------------------------------------------------------------ API for primitives
    def yield_point(self, kind=None):
        if self.aborting:
            return
        self.steps += 1
        if self.steps > self.step_cap:
            self._end_run(("stepcap", self.steps), self.cur)
        self._switch(self.cur)

    def block(self, pred, timeout=None, why=None, drain=False):
        """Block the current task until pred() is true or the timeout elapses (virtual time).
        Returns True if the predicate was satisfied.  If it already holds, returns at once WITHOUT
        yielding (yielding here would allow a second task to see the same resource free)."""
        if self.aborting:
            raise SimAbort
        me = self.cur
        if not drain and pred():
            return True
        if timeout is not None and timeout <= 0 and not drain:
            return False
        me.state = BLOCKED
        me.pred = pred
        me.why = why
        me.is_drain = drain
        me.deadline = None if timeout is None else self.now + to_ticks(timeout)
        me.timed_out = False
        self.steps += 1
        if self.steps > self.step_cap:
            me.state = RUNNABLE
            self._end_run(("stepcap", self.steps), me)
        self._switch(me)
        me.why = None
        return not me.timed_out

    def sleep(self, dt):
        if dt <= 0:
            self.yield_point("sleep0")
            return
        self.block(_never, timeout=dt, why="sleep")

    def wait_quiescent(self, why="drain"):
        """Block until every other task is blocked without deadline and no predicate is true."""
        self.block(_never, why=why, drain=True)

    def line_event(self):
        """Called from the sys.monitoring LINE/INSTRUCTION callback in the running task."""
        if self.aborting or self.cur is None:
            return
        self.steps += 1
        self.line_events += 1
        if self.replaying:
            if self.steps in self.trace_in:
                self._forced_preempt()
            return
        if self.policy == "pct":
            me = self.cur
            if self._pct_points and self._pct_points[0] <= self.steps:
                self._pct_tick()
            hp = me.prio
            for t in self.tasks:
                if t.prio > hp and t.state != DONE and t is not me:
                    if t.state == RUNNABLE or (t.state == BLOCKED and t.pred is not None and not t.is_drain and t.pred()):
                        self._switch(me)
                        return
            return
        self._line_countdown -= 1
        if self._line_countdown <= 0:
            self._line_countdown = self._draw_countdown()
            self._forced_preempt()

    def _forced_preempt(self):
        me = self.cur
        if self.steps > self.step_cap:
            self._end_run(("stepcap", self.steps), me)
        if self.replaying:
            self._switch(me)
            return
        r = [t for t in self._runnable() if t is not me]
        if not r:
            return
        self.decisions += 1
        self.preemptions += 1
        choice = r[self.rng.randrange(len(r))]
        self.trace_out[self.steps] = choice.tid
        self.cur = choice
        if choice.state == BLOCKED:
            choice.state = RUNNABLE
            choice.pred = None
            choice.deadline = None
            choice.timed_out = False
            choice.is_drain = False
        self.switches += 1
        choice.gate.release()
        me.gate.acquire()
        if self.aborting:
            raise SimAbort

    # ------------------------------------------------------------------ driver
    def run(self, main_fn, name="main"):
        t = self.spawn(main_fn, name, kind="actor")
        self.cur = t
        t.gate.release()
        self.main_gate.acquire()
        # serial abort of whatever is left: initiator first (it is unwinding right now)
        ini = self.abort_initiator
        if ini is not None:
            ini.fin.acquire()
        for x in list(self.tasks):
            if x is ini:
                continue
            if x.state != DONE:
                x.gate.release()
            x.fin.acquire()
        self.cur = None
        return self.verdict


def _never():
    return False


def _prio(t):
    return t.prio
