"""Common scenario plumbing: swarm scheduler configuration, run wrapper, shrinking helpers."""
from __future__ import annotations

import copy
import random

from . import prims
from .core import Sim, TICKS

P_SWITCH = [0.02, 0.1, 0.3, 0.7]


def draw_sched(rng: random.Random, *, line=True, pct_k=300, step_cap=200_000, horizon=3600, pct_share=0.3):
    """Swarm-style scheduler configuration for one run."""
    r = rng.random()
    if r < pct_share:
        cfg = {"policy": "pct", "pct_depth": rng.choice([1, 2, 2, 3, 3]), "pct_k": pct_k}
        cfg["line"] = bool(line)
    elif r < pct_share + 0.1:
        cfg = {"policy": "random"}
        cfg["p_line"] = rng.choice([0.0, 0.05, 0.2]) if line else 0.0
        cfg["line"] = cfg["p_line"] > 0
    else:
        cfg = {"policy": "sticky", "p_switch": rng.choice(P_SWITCH)}
        cfg["p_line"] = rng.choice([0.0, 0.0, 0.02, 0.05, 0.2]) if line else 0.0
        cfg["line"] = cfg["p_line"] > 0
    cfg["step_cap"] = step_cap
    cfg["horizon"] = horizon
    return cfg


class Violation(dict):
    def __init__(self, cls, signature, message=""):
        super().__init__(cls=cls, signature=signature, message=str(message)[:2000])


class Scenario:
    prop = "C00"
    level = "exploration"
    rule = ""
    components = {}
    assumptions = []
    budget = {"quick": 25, "thorough": 420, "minimise": 60}
    exhaustive = False
    keep_log_lines = 400
    level_text = ""
    level_note = ""
    design_ref = "DESIGN.md section 4"
    technique = "deterministic simulation with fault injection (seeded scheduler over real threads, virtual clock, replayable minimised schedules)"

    # ---- to override
    def gen_case(self, seed, tier, idx):
        raise NotImplementedError

    def run_case(self, case, sched_seed, trace=None):
        raise NotImplementedError

    def shrink(self, case):
        return iter(())

    # ---- helpers
    def simulate(self, case, sched_seed, trace, install, main, finish):
        """install(patcher, sim) sets the seams; main() is the main actor; finish(sim, verdict) returns
        (violations, extra dict).  Returns the result dict of the run."""
        cfg = dict(case.get("sched", {}))
        sim = Sim(sched_seed, cfg, trace)
        sim.monitor_on = bool(cfg.get("line"))
        p = prims.Patcher()
        prims.CURRENT[0] = sim
        try:
            install(p, sim)
            verdict = sim.run(main)
            if sim.clock_jumps:
                sim.wall_offset()  # count the steps the run has lived through even if the code never read a clock afterwards
        finally:
            p.restore()
            prims.CURRENT[0] = None
        violations, extra = finish(sim, verdict)
        harness = None
        for u in sim.uncaught:
            if u["kind"] == "actor":
                if u.get("in_lib") and u["exc"] not in ("AssertionError", "OSError", "FileNotFoundError"):
                    # a library call made by an application thread failed in a way no scenario expects (the expected ones
                    # are caught where the call is made): the library's fault, not the harness's
                    fn = u["where"][-1][2] if u["where"] else "?"
                    violations = list(violations) + [Violation("api-raised", f"{self.prop}:api-call-raised:{u['exc']}:{fn}", str(u))]
                    continue
                harness = f"exception in harness actor {u['task']}: {u['exc']}: {u['msg']} at {u['where']}"
        res = {
            "violations": violations,
            "digest": sim.digest(),
            "trace": {str(k): v for k, v in sorted(sim.trace_out.items())},
            "stats": {"steps": sim.steps, "decisions": sim.decisions, "sim_ticks": sim.now, "preemptions": sim.preemptions, "switches": sim.switches},
            "faults": dict(sim.fault_counts),
            "probes": dict(sim.probes),
            "harness_error": harness,
            "log": [repr(x) for x in sim.log[: self.keep_log_lines]],
        }
        res.update(extra or {})
        return res


def key_of(obj):
    import hashlib
    import json

    return hashlib.blake2b(json.dumps(obj, sort_keys=True, default=repr).encode(), digest_size=8).hexdigest()


def drop_each(lst):
    """Candidates with one element removed, trying later elements first."""
    for i in range(len(lst) - 1, -1, -1):
        yield lst[:i] + lst[i + 1:]


def with_key(case, key, value):
    c = copy.deepcopy(case)
    c[key] = value
    return c


def simpler_sched(case):
    s = case.get("sched", {})
    if s.get("policy") != "sticky" or s.get("p_line", 0) or s.get("line"):
        c = copy.deepcopy(case)
        c["sched"] = {"policy": "sticky", "p_switch": 0.3, "p_line": 0.0, "line": False, "step_cap": s.get("step_cap", 200_000), "horizon": s.get("horizon", 3600)}
        yield c


def ticks_to_s(t):
    return t / TICKS
