"""C04, C05, C06 (scripted-emitter part), C13 over the API-world."""
from __future__ import annotations

import copy
import random

from . import prims
from .apiworld import ApiRun, draw_concurrent_case, oracle_c04, oracle_c05, spec_key, tolerated_exception
from .core import DONE
from .scenario import Scenario, Violation, draw_sched, drop_each, key_of, simpler_sched

COMPONENTS = {
    "real": ["watchdog.observers.api (BaseObserver, EventDispatcher, EventEmitter, ObservedWatch, EventQueue)", "watchdog.utils.BaseThread", "watchdog.utils.bricks.SkipRepeatsQueue", "stdlib queue.Queue", "watchdog.events.FileSystemEventHandler.dispatch"],
    "simulated": ["scripted emitters (subclass of the real EventEmitter: only queue_events/on_thread_start are scripted)", "threading primitives and thread scheduling (line-level pre-emption in api.py, bricks.py, utils/__init__.py, queue.py)", "clock"],
}


def uncaught_violations(prop, sim):
    out = []
    for u in sim.uncaught:
        if u["kind"] != "actor" and "scripted emitter failure" not in u["msg"]:
            fn = u["where"][-1][2] if u["where"] else "?"
            out.append(Violation("uncaught", f"{prop}:uncaught:{u['task'].split('#')[0]}:{u['exc']}:{fn}", str(u)))
    return out


class ApiScenario(Scenario):
    components = COMPONENTS
    assumptions = [
        "scripted emitters stand for the platform emitters: they queue unique events through the real EventEmitter.queue_event",
        "handlers and emitters created by the harness define integer __hash__ so set iteration order is a function of the run",
        "three-valued history oracle: anything overlapping an in-flight call is MAY and never flagged",
    ]
    budget = {"quick": 20, "thorough": 420, "minimise": 40}
    reentrant = True
    probe_consistency = False

    def gen_case(self, seed, tier, idx):
        rng = random.Random(f"{seed}:ops")
        cfg = random.Random(f"{seed}:cfg")
        case = draw_concurrent_case(rng, cfg, reentrant=self.reentrant)
        case["sched"] = draw_sched(cfg, line=True, pct_k=400, step_cap=120_000, horizon=600)
        return case

    def shrink(self, case):
        for ai in range(len(case["actors"]) - 1, -1, -1):
            for cand in drop_each(case["actors"][ai]):
                c = copy.deepcopy(case)
                c["actors"][ai] = cand
                if ai > 0 and not cand:
                    del c["actors"][ai]
                yield c
        for cand in drop_each(case["hscripts"]):
            c = copy.deepcopy(case)
            c["hscripts"] = cand
            yield c
        for k, sc in case["scripts"].items():
            for cand in drop_each(sc):
                c = copy.deepcopy(case)
                c["scripts"][k] = cand
                yield c
        if case.get("emitter_faults"):
            for k in list(case["emitter_faults"]):
                c = copy.deepcopy(case)
                del c["emitter_faults"][k]
                yield c
        yield from simpler_sched(case)

    def oracle(self, run, sim, verdict, final):
        raise NotImplementedError

    @staticmethod
    def final_consistency(run, sim):
        """Quiescent end of a concurrent program: for every watch key, which handlers are registered (found by scheduling a
        probe handler on the key and queueing a marker through its emitter) and was an emitter reported for it before?"""
        import watchdog.events as wev

        obs = run.observer
        out = []
        keys = sorted({spec_key(s) for s in run.case["specs"]}, key=repr)

        def ekey(e):
            return (e.watch.path, e.watch.is_recursive, None if e.watch.event_filter is None else tuple(sorted(c.__name__ for c in e.watch.event_filter)))

        probe = run.handlers[0].__class__(99)
        for key in keys:
            had = any(ekey(e) == key for e in obs.emitters)
            spec_i = next(i for i, s in enumerate(run.case["specs"]) if spec_key(s) == key)
            path, rec, filt = run.case["specs"][spec_i]
            from .apiworld import FILTERS

            f = FILTERS[filt]
            n0 = len(run.hist["callbacks"])
            obs.schedule(probe, path, recursive=rec, event_filter=None if f is None else [getattr(wev, n) for n in f])
            em = next(e for e in sorted(obs.emitters, key=lambda e: e._idx) if ekey(e) == key)
            em.queue_event(wev.FileCreatedEvent(f"{path}/final-probe"))
            sim.wait_quiescent()
            got = sorted({cb["h"] for cb in run.hist["callbacks"][n0:] if cb["path"].endswith("/final-probe")} - {99})
            out.append({"key": key, "emitter_reported": had, "handlers": got})
            obs.remove_handler_for_watch(probe, run.watch_for(spec_i))
        return out

    def run_case(self, case, sched_seed, trace=None):
        run = ApiRun(case)
        run.enable_monitoring()
        final = {}

        def main():
            sim = prims.cur_sim()
            run.build()
            others = []
            for ai in range(1, len(case["actors"])):
                def prog(ai=ai):
                    for op in case["actors"][ai]:
                        run.do_op(f"A{ai}", op)
                others.append(sim.spawn(prog, f"actor{ai}", "actor"))
            for op in case["actors"][0]:
                run.do_op("A0", op)
            for t in others:
                sim.block(lambda t=t: t.state == DONE, why="join-actor")
            run.do_op("A0", ["barrier"])
            started = any(c["op"] == "start" and not c.get("exc") for c in run.hist["calls"])
            final["started"] = started
            if self.probe_consistency and started and not any(c["op"] == "stop" for c in run.hist["calls"]):
                final["consistency"] = self.final_consistency(run, sim)
            stopped_already = any(c["op"] == "stop" and c.get("ret") is not None and not c.get("exc") for c in run.hist["calls"])
            if not (case.get("no_final_stop") and stopped_already):
                # (with no_final_stop the program's own stop() is the last one: whatever was scheduled or started after it
                # must not be left running either)
                run.do_op("A0", ["stop"])
            if started:
                j = run.do_op("A0", ["join"])
                final["join_exc"] = j.get("exc")
            final["alive_lib"] = [t.name for t in sim.tasks if t.kind == "lib" and t.state != DONE]
            final["done"] = True

        def finish(sim, verdict):
            v = self.oracle(run, sim, verdict, final)
            sample = {"calls": [(c["actor"], c["op"], c["args"], c.get("exc")) for c in run.hist["calls"]][:30], "callbacks": [(c["h"], c["path"]) for c in run.hist["callbacks"]][:20]}
            return v, {"sample": sample}

        return self.simulate(case, sched_seed, trace, run.install, main, finish)


def hang_violations(prop, verdict):
    if verdict is None:
        return []
    kind, info = verdict
    if kind == "deadlock":
        who = sorted(f"{n.split('#')[0]}:{w}" for n, k, w in info)
        return [Violation("deadlock", f"{prop}:deadlock:" + ",".join(who), f"no task can run and no timer is pending: {info}")]
    return [Violation("hang", f"{prop}:{kind}", f"{kind}: {info}")]


class C04(ApiScenario):
    prop = "C04"
    design_ref = "DESIGN.md 3.2, 4/C04"
    rule = ("case = small client program (1-3 watches incl. equal watches, 1-3 handlers with scripted re-entrant calls, 1-3 API actors over schedule/unschedule/"
            "add/remove handler/unschedule_all/start/stop, scripted emitter event scripts, in a third of the runs with an event equal to the one before the previous one - X, Y, X) + scheduler configuration, all from the run seed; distinct = distinct (program digest, "
            "interleaving digest); non-trivial = at least one non-default scheduling decision was taken")
    level_text = ("Seeded search over client programs x interleavings (sticky/random/PCT d<=3, line-level pre-emption in api.py/bricks.py/utils) of the real BaseObserver with scripted "
                  "emitters; history oracle with MUST / MAY / MUST-NOT: at most one callback per (handler, queued event) - counted as a multiset where an emitter repeats an event non-consecutively -, per-watch order, delivery by the next quiescent barrier to every "
                  "certainly-registered handler, never to a handler certainly not registered for the watch; dispatcher/emitter threads never die with an exception.")
    level_note = "PCT gives the per-run hit probability for races of depth<=3; not exhaustive. Oracle speaks only about the harness's own invoke/return/queue/callback sequence numbers."

    def gen_case(self, seed, tier, idx):
        case = super().gen_case(seed, tier, idx)
        rrng = random.Random(f"{seed}:rep")
        if rrng.random() < 0.35:
            # X, Y, X from one emitter: equal events that are not consecutive must both be delivered
            for k in sorted(case["scripts"]):
                sc = case["scripts"][k]
                evs = [i for i, st in enumerate(sc) if st[0] == "ev"]
                if len(evs) >= 2 and rrng.random() < 0.7:
                    sc.insert(evs[rrng.randrange(1, len(evs))] + 1, ["rep"])
        return case

    def oracle(self, run, sim, verdict, final):
        v = hang_violations("C04", verdict)
        v += uncaught_violations("C04", sim)
        if verdict is None:
            v += oracle_c04(run)
            for c in run.hist["calls"]:
                if not tolerated_exception(run, c):
                    v.append(Violation("api-raised", f"C04:{c['op']}-raised:{c['exc']}", f"{c}"))
        return v


class C05(ApiScenario):
    prop = "C05"
    design_ref = "DESIGN.md 3.2, 4/C05"
    rule = C04.rule
    level_text = ("Same runs as C04 with more re-entrant removals; oracle: no callback of a removed handler starts after the removing call (unschedule, remove_handler_for_watch, "
                  "unschedule_all, stop; external or from inside a callback) returned unless a registration was invoked in between; the emitter of an unscheduled watch is dead and "
                  "queues nothing after the call returned.")
    level_note = C04.level_note

    def gen_case(self, seed, tier, idx):
        case = super().gen_case(seed, tier, idx)
        rng = random.Random(f"{seed}:c05")
        # bias: a removal right after events were queued
        if rng.random() < 0.5 and case["specs"]:
            s = rng.randrange(len(case["specs"]))
            hid = rng.randrange(case["handlers"])
            case["hscripts"].append([hid, rng.choice([0, 1]), rng.choice([["unschedule", s], ["remove_handler", hid, s], ["unschedule_all"], ["stop"]])])
        return case

    def oracle(self, run, sim, verdict, final):
        v = hang_violations("C05", verdict)
        v += uncaught_violations("C05", sim)
        if verdict is None:
            v += oracle_c05(run)
        return v


class C06(ApiScenario):
    prop = "C06"
    design_ref = "DESIGN.md 3.2, 4/C06"
    rule = (C04.rule + "; half of the programs end with an extra stop() of the harness, the others with their own last stop() (+ join() when the observer was started); 12% call start() a second time; 1% are a flood (one scripted emitter queues 1500/5000/9000 events while the only handler sleeps, then stop() / unschedule() / unschedule_all()); every fourth run index uses the REAL inotify emitter (real kernel behind the shim) or the real "
            "polling emitter on a real scratch tree: 1-3 application threads issue schedule/unschedule/unschedule_all/start/stop and file-system operations concurrently, a handler may call "
            "stop()/unschedule_all()/schedule() from its first callback, the root may be removed before stop(), the observer timeout is drawn from {1, 0.25, 0.05} s and entries are moved out of the tree "
            "(an emitter inside the pairing delay when stop() arrives)")
    level_text = ("Seeded search over API call orders x interleavings with scripted emitters and with the real inotify and polling emitters; "
                  "verdicts from the scheduler itself: deadlock = no runnable task and no pending timer while a call has not returned; hang = step cap / virtual-time horizon; "
                  "after stop()+join() returned every task started through BaseThread.start is finished.")
    level_note = "deadlock detection is exact for the explored schedule (all blocking goes through simulated primitives); coverage of schedules is sampled (PCT-bounded)."

    def gen_case(self, seed, tier, idx):
        if idx % 4 == 3:
            from .scen_c06real import gen_real_case

            return gen_real_case(seed)
        case = super().gen_case(seed, tier, idx)
        rng = random.Random(f"{seed}:c06")
        if rng.random() < 0.01:
            # a backlog of thousands of undispatched events (slow handler, busy directory) at the moment of stop() /
            # unschedule(): no emitter may be left blocked on the queue
            n = rng.choice([1500, 5000, 9000])
            ender = rng.choice([[["stop"]], [["unschedule", 0], ["stop"]], [["unschedule_all"], ["stop"]]])
            return {"specs": [["/w/p0", True, 0]], "scripts": {"0": [["flood", n]]}, "handlers": 1, "hscripts": [[0, 0, ["sleep", 4096]]], "emitter_faults": {},
                    "actors": [[["schedule", 0, 0], ["start"], ["sleep", 1024], *ender]], "no_final_stop": False, "flood": n,
                    "sched": {"policy": "sticky", "p_switch": rng.choice([0.0, 0.02]), "p_line": 0.0, "line": False, "step_cap": 3_000_000, "horizon": 600}}
        case["no_final_stop"] = rng.random() < 0.5
        if rng.random() < 0.12:
            # start() a second time (it raises RuntimeError like any thread; it must not disturb anything else)
            prog = case["actors"][rng.randrange(len(case["actors"]))]
            prog.insert(rng.randrange(len(prog) + 1), ["start"])
        if rng.random() < 0.3:
            case["actors"][0].append(["stop"])  # stop() more than once
        if rng.random() < 0.2 and len(case["actors"]) > 1:
            case["actors"][-1].append(["stop"])  # stop() from another application thread
        if rng.random() < 0.3 and len(case["actors"]) > 1:
            # a removal by another thread racing with main's schedule/start
            prog = case["actors"][rng.randrange(1, len(case["actors"]))]
            prog.insert(rng.randrange(len(prog) + 1), ["unschedule_all"])
        return case

    def run_case(self, case, sched_seed, trace=None):
        if case.get("mode") == "real":
            from .scen_c06real import run_real_case

            return run_real_case(self, case, sched_seed, trace)
        return super().run_case(case, sched_seed, trace)

    def shrink(self, case):
        if case.get("mode") != "real":
            yield from super().shrink(case)
            return
        for ai in range(len(case["progs"]) - 1, -1, -1):
            for cand in drop_each(case["progs"][ai]):
                c = copy.deepcopy(case)
                c["progs"][ai] = cand
                if ai > 0 and not cand:
                    del c["progs"][ai]
                yield c
        if case.get("reentrant"):
            c = copy.deepcopy(case)
            c["reentrant"] = None
            yield c
        yield from simpler_sched(case)

    def oracle(self, run, sim, verdict, final):
        v = hang_violations("C06", verdict)
        v += uncaught_violations("C06", sim)
        if verdict is None and final.get("done"):
            if final.get("join_exc"):
                v.append(Violation("join-raised", f"C06:join-raised:{final['join_exc']}", "join() after stop() raised"))
            if final["alive_lib"]:
                names = sorted({n.split("#")[0] for n in final["alive_lib"]})
                racing = _start_raced_stop(run)
                v.append(Violation("thread-alive", f"C06:alive-after-stop-join:{','.join(names)}" + (":start-raced-stop" if racing else ""), f"library threads still alive after stop()+join(): {final['alive_lib']}"))
        return v


def _start_raced_stop(run):
    st = [c for c in run.hist["calls"] if c["op"] == "start"]
    sp = [c for c in run.hist["calls"] if c["op"] in ("stop", "unschedule_all", "unschedule")]
    return any(s["inv"] < p.get("ret", 10**18) and p["inv"] < s.get("ret", 10**18) for s in st for p in sp)


class C13(Scenario):
    prop = "C13"
    level = "fault_enumeration"
    components = COMPONENTS
    design_ref = "DESIGN.md 3.2, 4/C13"
    budget = {"quick": 20, "thorough": 420, "minimise": 40}
    rule = ("case = sequential API call sequence from the valid domain over <=3 watch specs (equal watches, filters as part of identity) and <=3 handlers, with an emitter "
            "construction/start failure injected at one or two of the emitter constructions the sequence performs, replacements of an emitter that has stopped itself (operation 'end') included, and in 15% of the sequences that call start() after scheduling a failure of the k-th emitter inside start() (the other watches keep their emitters) (every construction position is hit in turn across run "
            "indices), checked after every call against a reference map; distinct = distinct call-sequence+fault digests; non-trivial = a fault fired or a pre-emption was taken")
    level_text = ("Reference-model refinement under fault enumeration: after every call the emitters reported equal the model's watch set (one per key, alive iff running) and a unique "
                  "marker queued through each emitter reaches exactly the model's handler set; a schedule() that raised changes nothing.")
    level_note = ("quick: call sequences are sampled and the failing construction position cycles through all positions of each sampled sequence; thorough: first all 24 410 (sequence, fault) "
                  "combinations of length <= 4 over 2 watches x 2 handlers (every construction position x {constructor, start} failure), then sampled longer ones")
    assumptions = ApiScenario.assumptions

    def gen_case(self, seed, tier, idx):
        rng = random.Random(f"{seed // 4}:ops")  # 4 consecutive run indices share a sequence, differ in fault position
        cfg = random.Random(f"{seed}:cfg")
        nspec = rng.choice([2, 3, 3])
        paths = ["/w/p0", "/w/p1"]
        specs = []
        for i in range(nspec):
            if i > 0 and rng.random() < 0.35:
                s = list(specs[rng.randrange(i)])
                if rng.random() < 0.5:
                    s[2] = (s[2] + rng.choice([1, 3])) % 4  # same path/recursive, other filter (incl. the empty one): a different watch
                specs.append(s)
            else:
                specs.append([rng.choice(paths), rng.random() < 0.5, rng.choice([0, 0, 1, 2, 3])])
        nh = rng.choice([2, 3])
        ops = []
        model = {}
        running = False
        started = False
        nconstruct = 0
        construct_at = []
        ended = set()  # watches whose emitter has stopped itself (as an emitter does when its root is deleted)
        n = rng.randrange(3, 11)
        for i in range(n):
            r = rng.random()
            keys = sorted(model, key=repr)
            if not started and r < 0.2:
                ops.append(["start"])
                running = started = True
                continue
            if r < 0.45 or not keys:
                s = rng.randrange(nspec)
                h = rng.randrange(nh)
                k = spec_key(specs[s])
                ops.append(["schedule", h, s])
                if k not in model or k in ended:
                    construct_at.append(len(ops) - 1)
                    nconstruct += 1
                    ended.discard(k)
                model.setdefault(k, set()).add(h)
            elif r < 0.6:
                s = rng.choice([i for i in range(nspec) if spec_key(specs[i]) in model])
                ops.append(["unschedule", s])
                del model[spec_key(specs[s])]
                ended.discard(spec_key(specs[s]))
            elif r < 0.72:
                s = rng.choice([i for i in range(nspec) if spec_key(specs[i]) in model])
                h = rng.randrange(nh)
                ops.append(["add_handler", h, s])
                model[spec_key(specs[s])].add(h)
            elif r < 0.84:
                cands = [(i, h) for i in range(nspec) if spec_key(specs[i]) in model for h in sorted(model[spec_key(specs[i])])]
                if not cands:
                    continue
                s, h = rng.choice(cands)
                ops.append(["remove_handler", h, s])
                model[spec_key(specs[s])].discard(h)
            elif r < 0.9:
                ops.append(["unschedule_all"])
                model.clear()
                ended.clear()
            elif r < 0.95 and running and any(k not in ended for k in model):
                # the emitter of a scheduled watch stops itself; the watch stays scheduled and a later schedule() of
                # an equal watch replaces the emitter (one emitter per watch before, during and after)
                s = rng.choice([i for i in range(nspec) if spec_key(specs[i]) in model and spec_key(specs[i]) not in ended])
                ops.append(["end", s])
                ended.add(spec_key(specs[s]))
            else:
                ops.append(["markers"])
        # fault position: cycles with the run index through "no fault", each construction position
        faults = {}
        variant = seed % 4
        if construct_at and variant > 0:
            frng = random.Random(f"{seed}:fault")
            pos = (seed // 4 + variant) % len(construct_at)
            faults[str(pos)] = frng.choice(["ctor", "start"])
            if variant == 3 and len(construct_at) > 1:
                faults[str((pos + 1) % len(construct_at))] = frng.choice(["ctor", "start"])
        sched = draw_sched(cfg, line=True, pct_k=400, step_cap=150_000, horizon=600, pct_share=0.2)
        case = {"specs": specs, "handlers": nh, "ops": ops, "fault_positions": faults, "scripts": {}, "hscripts": [], "sched": sched}
        srng = random.Random(f"{seed}:startfault")
        if ["start"] in ops and ops.index(["start"]) > 0 and srng.random() < 0.15:
            # start() itself fails: the k-th emitter cannot be started.  About the failing watch the property says nothing;
            # every other scheduled watch keeps its emitter and can be unscheduled
            case["start_fault"] = srng.randrange(3)
        return case

    def shrink(self, case):
        for cand in drop_each(case["ops"]):
            c = copy.deepcopy(case)
            c["ops"] = cand
            yield c
        for k in list(case["fault_positions"]):
            c = copy.deepcopy(case)
            del c["fault_positions"][k]
            yield c
        yield from simpler_sched(case)

    def run_case(self, case, sched_seed, trace=None):
        # fault positions are indices into "constructing schedule calls" as the *model* predicts them; they are
        # translated to emitter construction indices on the fly (a failed construction consumes an index too)
        case = dict(case)
        case["emitter_faults"] = {}
        run = ApiRun(case)
        run.enable_monitoring()
        found = []
        stats = {"checks": 0, "markers": 0}

        def main():
            import watchdog.events as wev

            sim = prims.cur_sim()
            run.build()
            obs = run.observer
            model = {}
            ended = set()
            running = False
            nconstructing = 0
            marker_n = 0

            def ekey(e):
                return (e.watch.path, e.watch.is_recursive, None if e.watch.event_filter is None else tuple(sorted(c.__name__ for c in e.watch.event_filter)))

            def check(after):
                stats["checks"] += 1
                ems = sorted(obs.emitters, key=lambda e: e._idx)
                keys = [(e.watch.path, e.watch.is_recursive, None if e.watch.event_filter is None else tuple(sorted(c.__name__ for c in e.watch.event_filter))) for e in ems]
                if sorted(map(repr, keys)) != sorted(map(repr, model)):
                    extra = [k for k in keys if k not in model]
                    missing = [k for k in model if k not in keys]
                    sig = "C13:emitters!=model:" + ("extra" if extra else "") + ("missing" if missing else "") + ("dup" if len(set(keys)) != len(keys) else "")
                    found.append(Violation("registry", sig, f"after {after}: emitters {keys} but model has {sorted(model, key=repr)}"))
                    return False
                for e in ems:
                    want = running and ekey(e) not in ended
                    if e.is_alive() != want:
                        found.append(Violation("registry", f"C13:emitter-alive={e.is_alive()}-while-running={running}" + (":self-stopped" if ekey(e) in ended else ""), f"after {after}: emitter {e._idx}"))
                        return False
                return True

            def markers(after):
                nonlocal marker_n
                if not running:
                    return
                stats["markers"] += 1
                sim.wait_quiescent()
                n0 = len(run.hist["callbacks"])
                expect = set()
                for e in sorted(obs.emitters, key=lambda e: e._idx):
                    key = (e.watch.path, e.watch.is_recursive, None if e.watch.event_filter is None else tuple(sorted(c.__name__ for c in e.watch.event_filter)))
                    path = f"{e.watch.path}/marker{marker_n}"
                    marker_n += 1
                    e.queue_event(wev.FileCreatedEvent(path))
                    if key[2] == ():
                        continue  # an empty filter accepts nothing: the marker must reach nobody
                    for h in model.get(key, ()):
                        expect.add((h, path))
                sim.wait_quiescent()
                got = [(cb["h"], cb["path"]) for cb in run.hist["callbacks"][n0:]]
                if sorted(got) != sorted(expect):
                    extra = sorted(set(got) - expect)
                    missing = sorted(expect - set(got))
                    dup = len(got) != len(set(got))
                    failed = [c for c in run.hist["calls"] if c["op"] == "schedule" and c.get("exc")]
                    sig = "C13:marker-delivery:" + ("extra" if extra else "") + ("missing" if missing else "") + ("dup" if dup else "")
                    if extra and any(c["h"] == h for c in failed for h, _ in extra):
                        sig += ":handler-of-failed-schedule"
                    found.append(Violation("delivery", sig, f"after {after}: delivered {sorted(got)} expected {sorted(expect)}; failed schedules: {[(c['h'], c['spec']) for c in failed]}"))

            for i, op in enumerate(case["ops"]):
                if found:
                    break
                kind = op[0]
                if kind == "markers":
                    markers(f"op {i}")
                    continue
                expect_fail = False
                # an operation whose pre-condition no longer holds in the model (because an injected failure removed
                # what it refers to) is outside the valid API domain and is skipped
                if kind == "unschedule" and spec_key(case["specs"][op[1]]) not in model:
                    continue
                if kind == "add_handler" and spec_key(case["specs"][op[2]]) not in model:
                    continue
                if kind == "remove_handler" and op[1] not in model.get(spec_key(case["specs"][op[2]]), ()):
                    continue
                if kind == "end":
                    k = spec_key(case["specs"][op[1]])
                    if not running or k not in model or k in ended:
                        continue
                    em = [e for e in obs.emitters if ekey(e) == k]
                    if len(em) != 1:
                        found.append(Violation("registry", "C13:emitters!=model:self-stop", f"op {i} {op}: {len(em)} emitters for {k}"))
                        break
                    em[0].stop()  # what an emitter does to itself when its root has gone
                    sim.wait_quiescent()
                    sim.fault_fired("emitter_self_stop")
                    ended.add(k)
                    if check(f"op {i} {op}"):
                        markers(f"op {i} {op}")
                    continue
                if kind == "start" and not running and case.get("start_fault") is not None and obs.emitters:
                    ems = sorted(obs.emitters, key=lambda e: e._idx)
                    victim = ems[case["start_fault"] % len(ems)]
                    victim._rec["fault"] = "start"
                    vkey = ekey(victim)
                    rec = run.do_op("A0", op)
                    others = [k for k in sorted(model, key=repr) if k != vkey]

                    def others_reported(after):
                        keys = [ekey(e) for e in obs.emitters]
                        bad = [k for k in others if keys.count(k) != 1]
                        if bad:
                            found.append(Violation("registry", "C13:failed-start:other-watch-lost-its-emitter", f"after {after} (start() failed at the emitter of {vkey}: {rec.get('exc')}): emitters {keys}, still scheduled besides the failing watch: {others}"))
                        return not bad

                    if rec.get("exc") and others_reported(f"op {i} {op}"):
                        for k in list(others):
                            si = next(j for j, sp in enumerate(case["specs"]) if spec_key(sp) == k)
                            r2 = run.do_op("A0", ["unschedule", si])
                            others.remove(k)
                            if r2.get("exc"):
                                found.append(Violation("api-raised", f"C13:failed-start:unschedule-raised:{r2['exc']}", f"unschedule of {k} after a start() that failed at the emitter of {vkey}: {r2.get('msg')}"))
                                break
                            if not others_reported(f"unschedule {k} after the failed start()"):
                                break
                    break
                replacing = False
                if kind == "schedule":
                    k = spec_key(case["specs"][op[2]])
                    if k not in model or k in ended:
                        replacing = k in ended
                        f = case["fault_positions"].get(str(nconstructing))
                        nconstructing += 1
                        if f == "start" and not running:
                            f = None  # the emitter is not started by schedule() on an idle observer
                        if f:
                            case["emitter_faults"][str(run.n_constructed)] = f
                            expect_fail = True
                rec = run.do_op("A0", op)
                if expect_fail:
                    if not rec.get("exc"):
                        found.append(Violation("fault", "C13:schedule-swallowed-emitter-failure", f"op {i} {op}: emitter failure did not propagate"))
                elif rec.get("exc"):
                    found.append(Violation("api-raised", f"C13:{kind}-raised:{rec['exc']}", f"op {i} {op} raised {rec['exc']}: {rec.get('msg')} in sequence {case['ops'][: i + 1]}"))
                    break
                else:
                    if kind == "schedule":
                        model.setdefault(spec_key(case["specs"][op[2]]), set()).add(op[1])
                        if replacing:
                            ended.discard(spec_key(case["specs"][op[2]]))
                    elif kind == "unschedule":
                        del model[spec_key(case["specs"][op[1]])]
                        ended.discard(spec_key(case["specs"][op[1]]))
                    elif kind == "add_handler":
                        model[spec_key(case["specs"][op[2]])].add(op[1])
                    elif kind == "remove_handler":
                        model[spec_key(case["specs"][op[2]])].discard(op[1])
                    elif kind == "unschedule_all":
                        model.clear()
                        ended.clear()
                    elif kind == "start":
                        running = True
                if check(f"op {i} {op}"):
                    markers(f"op {i} {op}")
            if running:
                run.do_op("A0", ["stop"])
                run.do_op("A0", ["join"])
            else:
                run.do_op("A0", ["stop"])

        def finish(sim, verdict):
            v = hang_violations("C13", verdict) + uncaught_violations("C13", sim) + found
            return v, {"sample": {"ops": case["ops"], "faults": case["fault_positions"], "calls": [(c["op"], c["args"], c.get("exc")) for c in run.hist["calls"]]}, "extra": dict(stats, enumerated_sequences=1 if case.get("enumerated") else 0),
                       "nontrivial": bool(case["fault_positions"]), "hist_key": key_of([case["ops"], case["fault_positions"], case["specs"]])}

        return self.simulate(case, sched_seed, trace, run.install, main, finish)


# ---------------------------------------------------------------------------- C13 exhaustive small scope
_ENUM13 = {}
ENUM13_SPECS = [["/w/p0", True, 0], ["/w/p0", True, 3]]  # same path and flag, no filter vs the empty filter: two distinct watches


def enum_c13(max_len=4):
    """Every API call sequence of length <= max_len from the valid domain over 2 watches x 2 handlers, each with no
    fault and with a constructor / start failure at every emitter construction it performs."""
    if max_len in _ENUM13:
        return _ENUM13[max_len]
    out = []

    def rec(ops, model, started, constructs):
        if ops:
            out.append((list(ops), {}))
            for ci in range(constructs):
                for kind in ("ctor", "start"):
                    out.append((list(ops), {str(ci): kind}))
        if len(ops) == max_len:
            return
        cands = []
        for s in range(2):
            for h in range(2):
                cands.append(["schedule", h, s])
                if s in model:
                    cands.append(["add_handler", h, s])
                    if h in model[s]:
                        cands.append(["remove_handler", h, s])
            if s in model:
                cands.append(["unschedule", s])
        cands.append(["unschedule_all"])
        if not started:
            cands.append(["start"])
        for op in cands:
            m2 = {k: set(v) for k, v in model.items()}
            st, c2 = started, constructs
            k = op[0]
            if k == "schedule":
                if op[2] not in m2:
                    c2 += 1
                m2.setdefault(op[2], set()).add(op[1])
            elif k == "unschedule":
                del m2[op[1]]
            elif k == "add_handler":
                m2[op[2]].add(op[1])
            elif k == "remove_handler":
                m2[op[2]].discard(op[1])
            elif k == "unschedule_all":
                m2.clear()
            elif k == "start":
                st = True
            ops.append(op)
            rec(ops, m2, st, c2)
            ops.pop()

    rec([], {}, False, 0)
    _ENUM13[max_len] = out
    return out


class C13Conc(ApiScenario):
    """Concurrent client programs judged by the registry-consistency oracle only."""

    prop = "C13"
    reentrant = False
    probe_consistency = True

    def oracle(self, run, sim, verdict, final):
        v = hang_violations("C13", verdict) + uncaught_violations("C13", sim)
        for c in final.get("consistency") or []:
            key = c["key"]
            # handlers may also be attached to an unscheduled watch by an add_handler_for_watch whose caller's view was stale
            # (another thread's unschedule came first): outside the valid domain, so only schedule()-registered keys count
            if any(x["op"] == "add_handler" and x.get("key") == key for x in run.hist["calls"]):
                continue
            if c["handlers"] and not c["emitter_reported"]:
                v.append(Violation("registry", "C13:concurrent:handler-registered-for-watch-without-emitter", f"at the quiescent end handlers {c['handlers']} are registered for {key} but observer.emitters reports no emitter for it; calls={[(x['actor'], x['op'], x['args'], x.get('exc')) for x in run.hist['calls']]}"))
        return v


_c13_gen = C13.gen_case
_c13_run = C13.run_case
_c13_shrink = C13.shrink


def _c13_run_case(self, case, sched_seed, trace=None):
    if "actors" in case:
        return C13Conc().run_case(case, sched_seed, trace)
    return _c13_run(self, case, sched_seed, trace)


def _c13_shrink_case(self, case):
    if "actors" in case:
        yield from C13Conc().shrink(case)
    else:
        yield from _c13_shrink(self, case)


C13.run_case = _c13_run_case
C13.shrink = _c13_shrink_case


def _c13_gen_case(self, seed, tier, idx):
    if tier == "thorough":
        en = enum_c13(4)
        if idx < len(en):
            ops, faults = en[idx]
            cfg = random.Random(f"{seed}:cfg")
            sched = draw_sched(cfg, line=True, pct_k=300, step_cap=150_000, horizon=600, pct_share=0.2)
            return {"specs": [list(s) for s in ENUM13_SPECS], "handlers": 2, "ops": [list(o) for o in ops], "fault_positions": dict(faults), "scripts": {}, "hscripts": [], "sched": sched, "enumerated": True}
    if idx % 4 == 3:
        # concurrent client programs (no injected failures): registry consistency at the quiescent end
        c = C13Conc().gen_case(seed, tier, idx)
        c["actors"][0] = [op for op in c["actors"][0] if op[0] != "stop"]
        return c
    return _c13_gen(self, seed, tier, idx)


C13.gen_case = _c13_gen_case
