"""C20 - Windows (ReadDirectoryChangesW) and macOS (FSEvents) translation layers (DESIGN.md 2.4, 3.6, 4/C20).

The real WindowsApiEmitter / winapi parser and the real FSEventsEmitter are imported on Linux through import shims
and fed by documented-semantics renderers from histories executed on a real scratch tree.  TRUST BASE: the two
renderers are a reading of the vendor documentation and of the comments in fsevents.py; they were not validated
against Windows or macOS."""
from __future__ import annotations

import copy
import ctypes
import os
import random
import struct
import sys
import types

from . import fsmodel as fm
from . import prims
from .core import DONE
from .fsworld import FsRun
from .scen_fs import generic_violations
from .scenario import Scenario, Violation, draw_sched, drop_each, key_of, simpler_sched

# ----------------------------------------------------------------------------- import shims
_shim = {"done": False}


class _FakeFn:
    def __init__(self, name):
        self.name = name
        self.restype = None
        self.errcheck = None
        self.argtypes = None

    def __call__(self, *a):
        raise OSError(f"kernel32.{self.name} not simulated")


class _FakeDLL:
    def __getattr__(self, n):
        f = _FakeFn(n)
        setattr(self, n, f)
        return f


class NativeEvent:
    """Stand-in for _watchdog_fsevents.NativeEvent (same flag properties as the C extension)."""

    F = {"is_root_changed": 0x20, "is_created": 0x100, "is_removed": 0x200, "is_inode_meta_mod": 0x400, "is_renamed": 0x800, "is_modified": 0x1000,
         "is_item_finder_info_modified": 0x2000, "is_owner_change": 0x4000, "is_xattr_mod": 0x8000, "is_file": 0x10000, "is_directory": 0x20000, "is_symlink": 0x40000}

    def __init__(self, path, inode, flags, event_id):
        self.path = os.fsdecode(path)
        self.inode = inode
        self.flags = flags
        self.event_id = event_id

    def __repr__(self):
        return f"NativeEvent({self.path!r}, {self.inode}, {self.flags:#x})"


for _n, _bit in NativeEvent.F.items():
    setattr(NativeEvent, _n, property(lambda self, b=_bit: bool(self.flags & b)))
NativeEvent.is_coalesced = property(lambda self: False)


def import_foreign():
    """Import watchdog.observers.winapi / read_directory_changes / fsevents on Linux."""
    if _shim["done"]:
        return
    import ctypes.wintypes as wt

    wt.DWORD = ctypes.c_uint32  # the Windows truth (c_ulong is 8 bytes on Linux)
    wt.BOOL = ctypes.c_int32
    ctypes.WinDLL = lambda name: _FakeDLL()
    ctypes.WinError = lambda *a: OSError("WinError")
    fse = types.ModuleType("_watchdog_fsevents")
    fse.NativeEvent = NativeEvent
    fse.add_watch = lambda *a: CUR_FSE[0].add_watch(*a)
    fse.read_events = lambda *a: CUR_FSE[0].read_events(*a)
    fse.remove_watch = lambda *a: CUR_FSE[0].remove_watch(*a)
    fse.stop = lambda *a: CUR_FSE[0].stop(*a)
    sys.modules["_watchdog_fsevents"] = fse
    import watchdog.observers.fsevents  # noqa: F401
    import watchdog.observers.read_directory_changes  # noqa: F401
    import watchdog.observers.winapi  # noqa: F401

    _shim["done"] = True


CUR_FSE = [None]


# ----------------------------------------------------------------------------- fake peers
class FakeKernel32:
    """ReadDirectoryChangesW & friends over a pending-record queue fed by the renderer."""

    def __init__(self, sim, run, cut_sizes):
        self.sim = sim
        self.run = run
        self.pending = []  # (action, relpath)
        self.cancelled = False
        self.closed = False
        self.root_gone = False
        self.cut_sizes = cut_sizes
        self.nread = 0
        self.encoded = []
        self.decoded_ok = True
        self.hold = False  # grouped mode: nothing is delivered until the group of operations is complete

    def CreateFileW(self, path, *a):
        self.sim.yield_point("w:create")
        if not os.path.isdir(path):
            e = OSError("cannot open directory")
            e.winerror = 3
            raise e
        return 77

    def ReadDirectoryChangesW(self, handle, buf_ref, buflen, subtree, flt, nbytes_ref, ov, cr):
        s = self.sim
        s.yield_point("w:read")
        s.block(lambda: ((bool(self.pending) or self.root_gone) and not self.hold) or self.cancelled, why="rdcw")
        if self.cancelled:
            e = OSError("aborted")
            e.winerror = 995
            raise e
        if not self.pending and self.root_gone:
            e = OSError("access denied")
            e.winerror = 5
            raise e
        n = self.cut_sizes[self.nread % len(self.cut_sizes)] if self.cut_sizes else 0
        self.nread += 1
        n = len(self.pending) if not n else min(n, len(self.pending))
        # never cut an OLD_NAME / NEW_NAME pair apart
        if n < len(self.pending) and self.pending[n - 1][0] == 4:
            n += 1
        recs, self.pending = self.pending[:n], self.pending[n:]
        data = b""
        for i, (action, rel) in enumerate(recs):
            name = rel.encode("utf-16-le")
            size = 12 + len(name)
            pad = (-size) % 4
            nxt = 0 if i == len(recs) - 1 else size + pad
            data += struct.pack("<III", nxt, action, len(name)) + name + b"\0" * pad
        self.encoded.append(recs)
        buf = buf_ref._obj
        ctypes.memmove(buf, data, len(data))
        nbytes_ref._obj.value = len(data)
        s.rec("w:read", recs)
        return 1

    def CancelIoEx(self, handle, ov):
        self.sim.yield_point("w:cancel")
        self.cancelled = True
        return 1

    def CloseHandle(self, handle):
        self.closed = True
        return 1

    def GetFinalPathNameByHandleW(self, handle, buff, n, flags):
        buff.value = "" if self.root_gone else self.run.watch_path()
        return len(buff.value)


class FakeFSEvents:
    def __init__(self, sim, run, latency_cuts):
        self.sim = sim
        self.run = run
        self.window = []  # [path, inode, flags] in first-change order
        self.batches = []
        self.stopped = False
        self.callback = None
        self.next_id = 1
        self.cuts = latency_cuts
        self.flushes = 0
        self.hold = False

    def add_watch(self, emitter, watch, callback, paths):
        self.callback = callback

    def remove_watch(self, watch):
        pass

    def stop(self, emitter):
        self.stopped = True
        self.sim.yield_point("f:stop")

    def flush(self):
        """End of a latency window: the coalesced records become one batch."""
        if self.window:
            self.batches.append(self.window)
            self.window = []

    def read_events(self, emitter):
        s = self.sim
        while True:
            s.block(lambda: (bool(self.batches) and not self.hold) or self.stopped, why="fsevents-runloop")
            if self.stopped and not self.batches:
                return
            b = self.batches.pop(0)
            s.rec("f:batch", [(p.replace(self.run.top, ""), fl) for p, i, fl in b])
            ids = list(range(self.next_id, self.next_id + len(b)))
            self.next_id += len(b)
            self.callback([os.fsencode(p) for p, i, fl in b], [i for p, i, fl in b], [fl for p, i, fl in b], ids)
            s.yield_point("f:after-batch")

    def record(self, path, inode, flags):
        for r in self.window:
            if r[0] == path and r[1] == inode:
                # flags of changes to the same item at the same path are OR-ed into one record, which sits at the
                # position of the item's latest change (renderer decision, see DESIGN.md 4/C20)
                r[2] |= flags
                self.window.remove(r)
                self.window.append(r)
                return
        self.window.append([path, inode, flags])


class ForeignRun(FsRun):
    def __init__(self, case):
        super().__init__(case)
        self.os_kind = case["os"]
        self.created_inodes = set()
        self.k32 = None
        self.fse = None

    def modules(self):
        import_foreign()
        import watchdog.observers.fsevents as fsev
        import watchdog.observers.read_directory_changes as rdc
        import watchdog.observers.winapi as winapi

        M = super().modules()
        M.update(fsev=fsev, rdc=rdc, winapi=winapi)
        return M

    def install(self, p, sim):
        M = self.modules()
        prims.install_base(p, modules_threading=[M["api"], M["rdc"], M["fsev"]], modules_time=[M["fsev"]])
        os.makedirs(self.top + "/root")
        os.makedirs(self.top + "/out")
        if self.os_kind == "windows":
            k = FakeKernel32(sim, self, self.case.get("cuts") or [])
            self.k32 = k
            w = M["winapi"]
            for n in ("CreateFileW", "ReadDirectoryChangesW", "CancelIoEx", "CloseHandle", "GetFinalPathNameByHandleW"):
                p.set(w, n, getattr(k, n))
            real_parse = w._parse_event_buffer
            k.decoded = []

            def parse(buf, n, real_parse=real_parse, k=k):
                out = real_parse(buf, n)
                if n:
                    k.decoded.append([(a, nm) for a, nm in out])
                return out

            p.set(w, "_parse_event_buffer", parse)
        else:
            self.fse = FakeFSEvents(sim, self, self.case.get("cuts") or [])
            CUR_FSE[0] = self.fse

    def enable_monitoring(self):
        pass

    def build(self, handler_hook=None):
        M = self.modules()
        base = M["rdc"].WindowsApiEmitter if self.os_kind == "windows" else M["fsev"].FSEventsEmitter
        run = self
        sim = prims.cur_sim()

        class Em(base):
            def __hash__(self):
                return 1

            def __eq__(self, other):
                return self is other

        class H(M["wev"].FileSystemEventHandler):
            def __init__(self, hid):
                self.hid = hid

            def __hash__(self):
                return self.hid

            def __eq__(self, other):
                return self is other

            def on_any_event(self, e):
                sh = run.shape(e)
                run.events.append({"seq": sim.next_seq(), "opi": run.opi, "ev": e, "shape": sh, "h": self.hid, "phase": run.phase})
                sim.rec("ev", sh)

        self.observer = M["api"].BaseObserver(Em)
        self.H = H
        self.handlers = [H(0)]
        return self.observer

    def cleanup(self):
        import shutil

        shutil.rmtree(self.topb, ignore_errors=True)

    # ---- the renderers: called right after the real system calls of an operation (the OS queues synchronously)
    def render(self, op, before: fm.Model, inodes):
        if self.os_kind == "windows":
            self.render_windows(op, before)
        else:
            self.render_fsevents(op, before, inodes)

    def _rel(self, p):
        return p[len("root/"):]

    def render_windows(self, op, m):
        k = op[0]
        out = self.k32.pending
        rec = self.recursive

        def vis(p):  # is a change of entry p reported by this handle?
            return fm.is_under(p, "root") and p != "root" and (rec or fm.parent(p) == "root")

        def add(action, p):
            if vis(p):
                out.append((action, self._rel(p)))

        def parent_mod(p):
            par = fm.parent(p)
            if par != "root" and vis(par) and self.case.get("parent_modified"):
                out.append((3, self._rel(par)))

        if k == "mkfile":
            add(1, op[1])
            add(3, op[1])
            parent_mod(op[1])
        elif k == "write":
            add(3, op[1])
        elif k == "chmod":
            add(3, op[1])
        elif k in ("unlink", "rmdir"):
            add(2, op[1])
            parent_mod(op[1])
        elif k == "mkdir":
            add(1, op[1])
            parent_mod(op[1])
        elif k == "makedirs":
            p = op[1]
            for n in op[2]:
                p = p + "/" + n
                add(1, p)
        elif k == "rmtree":
            for q in sorted([op[1]] + m.subtree(op[1]), key=lambda q: (-q.count("/"), q)):
                add(2, q)
        elif k == "rename":
            s, d = op[1], op[2]
            if vis(s) and vis(d):
                out.append((4, self._rel(s)))
                out.append((5, self._rel(d)))
            elif vis(s):
                out.append((2, self._rel(s)))
            elif vis(d):
                out.append((1, self._rel(d)))
        elif k == "moveout":
            add(2, op[1])
        elif k in ("movein_file", "movein_tree"):
            add(1, op[2])
        elif k == "rmroot":
            for q in sorted(m.subtree("root"), key=lambda q: (-q.count("/"), q)):
                add(2, q)
            self.k32.root_gone = True

    FL = {"created": 0x100, "removed": 0x200, "meta": 0x400, "renamed": 0x800, "modified": 0x1000, "file": 0x10000, "dir": 0x20000, "root": 0x20}

    def render_fsevents(self, op, m, inodes):
        k = op[0]
        F = self.FL
        fse = self.fse
        absp = lambda p: self.top + "/" + p  # noqa: E731

        def kindflag(p, model=m):
            return F["dir"] if model.kind(p) == "d" else F["file"]

        def rec(p, flags, kf=None):
            if fm.is_under(p, "root"):
                ino = inodes[p]
                if flags & F["created"]:
                    self.created_inodes.add(ino)
                elif self.case.get("sticky_created") and ino in self.created_inodes:
                    # "Some events will have a spurious is_created flag set, coalesced from an already emitted and
                    # processed CreatedEvent" (comment in fsevents.py): sticky flags of an item seen before
                    flags |= F["created"]
                fse.record(absp(p), ino, flags | (kf if kf is not None else kindflag(p)))

        if k == "mkfile":
            rec(op[1], F["created"], F["file"])
        elif k == "write":
            rec(op[1], F["modified"])
        elif k == "chmod":
            rec(op[1], F["meta"])
        elif k in ("unlink", "rmdir"):
            rec(op[1], F["removed"])
        elif k == "mkdir":
            rec(op[1], F["created"], F["dir"])
        elif k == "makedirs":
            p = op[1]
            for n in op[2]:
                p = p + "/" + n
                rec(p, F["created"], F["dir"])
        elif k == "rmtree":
            for q in sorted([op[1]] + m.subtree(op[1]), key=lambda q: (-q.count("/"), q)):
                rec(q, F["removed"])
        elif k == "rename":
            s, d = op[1], op[2]
            kf = kindflag(s)
            self._one_rename_per_window(inodes[s])
            fse.record(absp(s), inodes[s], F["renamed"] | kf)
            fse.record(absp(d), inodes[s], F["renamed"] | kf)
        elif k == "moveout":
            self._one_rename_per_window(inodes[op[1]])
            rec(op[1], F["renamed"])
        elif k == "movein_file":
            rec(op[2], F["renamed"], F["file"])
        elif k == "movein_tree":
            rec(op[2], F["renamed"], F["dir"])
        elif k == "rmroot":
            for q in sorted(m.subtree("root"), key=lambda q: (-q.count("/"), q)):
                rec(q, F["removed"])
            fse.record(absp("root"), inodes["root"], F["root"] | F["dir"])
        if self.case.get("flush_each", True) or k == "rmroot":
            fse.flush()

    def _one_rename_per_window(self, inode):
        """Renderer restriction (stated in the evidence): a latency window never holds two renames of one item -
        the records of a rename there-and-back are order-ambiguous even for the documented semantics."""
        if any(r[1] == inode and r[2] & self.FL["renamed"] for r in self.fse.window):
            self.fse.flush()

    def exec_op(self, op, pre=False):
        sim = prims.cur_sim()
        if pre or op[0] == "drain":
            peer = self.fse if self.fse is not None else self.k32
            if op[0] == "drain" and self.fse is not None:
                self.fse.flush()
            if op[0] == "drain" and peer is not None and self.case.get("grouped"):
                peer.hold = False  # the group is complete: deliver what has accumulated, then hold again
                r = super().exec_op(op, pre)
                peer.hold = True
                return r
            return super().exec_op(op, pre)
        # inodes of everything the operation may mention, read before the real calls
        m = self.model
        before = fm.Model.__new__(fm.Model)
        before.t = dict(m.t)
        inodes = {}
        for p in before.t:
            if fm.is_under(p, "root"):
                try:
                    inodes[p] = os.lstat(self.real(p)).st_ino
                except OSError:
                    pass
        super().exec_op(op, pre)
        for p in m.t:
            if fm.is_under(p, "root") and p not in inodes:
                try:
                    inodes[p] = os.lstat(self.real(p)).st_ino
                except OSError:
                    pass
        self.render(op, before, inodes)


class C20(Scenario):
    prop = "C20"
    level = "exploration"
    design_ref = "DESIGN.md 2.4, 3.6, 4/C20"
    rule = ("OS = Windows | macOS by run index; histories of C01 without replace-renames (create/write/chmod/unlink/mkdir/makedirs/rmdir/rmtree/rename/move out/move in of files and trees/remove "
            "root) executed on a real scratch tree and rendered into native batches by the documented-semantics renderers (Windows: one FILE_NOTIFY_INFORMATION record per change, OLD_NAME/"
            "NEW_NAME adjacent, subtree flag, buffer cuts at seeded record counts; FSEvents: per-(item,path) records with flags OR-ed within a latency window, rename = two ItemRenamed records "
            "with one inode); 70% paced; 10% of the runs use names that begin with U+FEFF / U+FFFE; distinct = distinct (OS, history, cuts, interleaving); non-trivial = a buffer cut or flag coalescing happened, or a pre-emption was taken")
    level_text = ("Translation layers judged against fake OS peers: replay of the normalised stream equals the final tree; a paced rename inside a recursive watch yields one moved event with both "
                  "paths plus one synthetic moved event per descendant; move in -> created (+ synthetic created per descendant), move out -> deleted; a non-recursive FSEvents watch reports nothing "
                  "below the root's direct children; on paced and grouped recursive runs every primary moved event names a source the stream has accounted for (a source that arrived by a move-in of the "
                  "same history excepted); every Windows buffer is decoded by the real _parse_event_buffer into exactly the records that were encoded.")
    level_note = ("TRUST BASE: the renderers are a reading of the vendor documentation and of the comment block in fsevents.py; not validated against Windows or macOS. A violation here is first a "
                  "possible renderer error. The raw inotify decoder rides along in every FS-world run; the exhaustive decoder half of the statement (all encodable record sequences) is a pure "
                  "function and not separately decided.")
    components = {"real": ["watchdog.observers.read_directory_changes.WindowsApiEmitter", "watchdog.observers.winapi (read_events, _parse_event_buffer, deleted-root detection)", "watchdog.observers.fsevents.FSEventsEmitter",
                           "watchdog.events sub-event generators", "watchdog.observers.api"],
                  "simulated": ["kernel32 (CreateFileW, ReadDirectoryChangesW, CancelIoEx, CloseHandle, GetFinalPathNameByHandleW)", "_watchdog_fsevents C extension (NativeEvent, run loop)", "renderers of native notifications", "scheduler, clock"]}
    assumptions = ["renderer semantics as fixed in DESIGN.md 4/C20", "an FSEvents latency window never holds two renames of the same item (the renderer closes the window first)", "40% of the runs render sticky ItemCreated flags on later records of an item whose creation was already delivered", "os.path is posixpath: Windows relative names are rendered with '/'", "Windows deletion flavour is not judged (the OS does not tell)"]
    budget = {"quick": 25, "thorough": 420, "minimise": 60}

    ALLOW = {"mkfile", "write", "chmod", "unlink", "mkdir", "makedirs", "rmdir", "rmtree", "rename", "moveout", "movein_file", "movein_tree", "drain"}

    def gen_case(self, seed, tier, idx):
        rng = random.Random(f"{seed}:ops")
        cfg = random.Random(f"{seed}:cfg")
        m = fm.Model()
        # 10% of the runs use names that begin with U+FEFF / U+FFFE (legal file names; in UTF-16 they look like byte-order marks)
        names = ("\ufeffa", "b", "\ufffec") if random.Random(f"{seed}:names").random() < 0.1 else ("a", "b", "c")
        pre = fm.gen_ops(rng, m, rng.randrange(0, 5), names=names, paced=False, allow={"mkdir", "mkfile", "makedirs"})
        m.drain()
        paced = cfg.random() < 0.7
        w = dict(fm.DEFAULT_WEIGHTS)
        if paced:
            w.pop("drain")
        # no replace-renames: generate, then drop renames onto existing entries
        # the foreign emitters install no per-directory watches, so the directory pacing condition is not needed for
        # "nothing real goes unreported": 40% of the racing runs ignore it (only the missing-entries oracle applies)
        grouped = (not paced) and cfg.random() < 0.35  # paced histories whose notifications are delivered per group of operations
        unpaced = (not paced) and not grouped and cfg.random() < 0.6
        ops_all = fm.gen_ops(rng, m, rng.randrange(1, 10), names=names, weights=w, paced=not unpaced, drain_each=paced, allow=self.ALLOW)
        mm = fm.Model()
        for op in pre:
            fm.apply(mm, op)
        ops = []
        vacated = set()  # grouped mode: a name vacated inside a group is not re-used before the group is delivered
        for op in ops_all:
            if op[0] == "rename" and op[2] in mm.t:
                continue
            if not fm.valid(mm, op, paced=False):
                continue
            if grouped:
                if op[0] == "drain":
                    vacated.clear()
                target = {"mkfile": 1, "mkdir": 1, "rename": 2, "movein_file": 2, "movein_tree": 2}.get(op[0])
                new_paths = [op[target]] if target else []
                if op[0] == "makedirs":
                    new_paths = [op[1] + "/" + "/".join(op[2][: i + 1]) for i in range(len(op[2]))]
                if any(p in vacated or any(fm.is_under(p, v) for v in vacated) for p in new_paths):
                    continue
                if op[0] in ("rename", "moveout", "unlink", "rmdir", "rmtree"):
                    vacated.add(op[1])
                    vacated.update(mm.subtree(op[1]))
            fm.apply(mm, op)
            ops.append(op)
        osk = ["windows", "macos"][idx % 2]
        if rng.random() < 0.12:
            ops += [["drain"], ["rmroot"]]
        case = {"os": osk, "pre": pre, "ops": ops, "paced": paced, "unpaced": unpaced, "grouped": grouped,
                "watch": {"recursive": cfg.random() < 0.75, "root_kind": "str", "spelling": "abs"},
                "cuts": [cfg.choice([0, 1, 2, 3]) for _ in range(3)], "sticky_created": cfg.random() < 0.4, "parent_modified": cfg.random() < 0.5, "flush_each": paced or (not grouped and cfg.random() < 0.5),
                "sched": draw_sched(cfg, line=False, pct_k=800, step_cap=300_000, horizon=3600, pct_share=0.2)}
        return case

    def shrink(self, case):
        for cand in drop_each(case["ops"]):
            c = copy.deepcopy(case)
            kept, _ = fm.revalidate(c["pre"], cand, paced=False)
            if len(kept) < len(case["ops"]):
                c["ops"] = kept
                yield c
        for cand in drop_each(case["pre"]):
            c = copy.deepcopy(case)
            c["pre"], _ = fm.revalidate([], cand, paced=False)
            c["ops"], _ = fm.revalidate(c["pre"], c["ops"], paced=False)
            yield c
        yield from simpler_sched(case)

    def run_case(self, case, sched_seed, trace=None):
        run = ForeignRun(case)
        res = {}

        def main():
            sim = prims.cur_sim()
            run.apply_pre(case["pre"])
            tree0 = run.scan("root")
            res["tree0"] = tree0
            obs = run.build()
            obs.schedule(run.handlers[0], run.watch_path(), recursive=run.recursive)
            obs.start()
            sim.wait_quiescent()
            if case.get("grouped"):
                (run.fse if run.fse is not None else run.k32).hold = True
            for op in case["ops"]:
                if not fm.valid(run.model, op, paced=False):
                    continue
                run.exec_op(op)
            run.exec_op(["drain"])
            res["replay"] = self.replay_check(run, tree0)
            res["alive_before_stop"] = [t.name for t in sim.tasks if t.kind == "lib" and t.state != DONE]
            obs.stop()
            obs.join()
            res["alive"] = [t.name for t in sim.tasks if t.kind == "lib" and t.state != DONE]
            res["done"] = True

        def finish(sim, verdict):
            try:
                v = generic_violations("C20", sim, verdict, res)
                if res.get("done"):
                    v += self.judge(run, res, case)
            finally:
                run.cleanup()
            nontriv = bool(run.k32 and any(len(b) > 1 for b in run.k32.encoded)) or bool(run.fse and run.fse.next_id > 2)
            return v, {"sample": {"os": case["os"], "ops": case["ops"], "events": [e["shape"] for e in run.events[:30]]}, "hist_key": key_of([case["os"], case["pre"], case["ops"], case["watch"], case["cuts"]]), "nontrivial": nontriv}

        try:
            return self.simulate(case, sched_seed, trace, run.install, main, finish)
        finally:
            run.cleanup()

    def replay_check(self, run, tree0):
        real = run.scan("root") or {}
        evs = [e for e in run.events if e["phase"] == "ops"]
        # the flavour of the moved / created top entry comes from the event itself (lenient)
        unknown = []
        got = run.replay(tree0, evs, unknown)
        run.unknown_move_sources = unknown
        if "root" not in run.model.t:
            return None
        if not run.recursive:
            real = {p: k for p, k in real.items() if fm.parent(p) == "root"}
            got = {p: k for p, k in got.items() if fm.parent(p) == "root"}
        # both emitters learn the File/Dir flavour from the file system at processing time (os.path.isdir / stale flags):
        # when operations race ahead of the emitter the flavour may be stale, so kinds are compared on paced runs only
        if run.case.get("grouped"):
            # the group was complete when the emitter saw it: every path must be right, flavours may be stale inside a group
            if set(got) == set(real):
                return None
            return {"phantom": {p: k for p, k in got.items() if p not in real}, "missing": {p: k for p, k in real.items() if p not in got}}
        if run.case["paced"]:
            if got == real:
                return None
            return {"phantom": {p: k for p, k in got.items() if real.get(p) != k}, "missing": {p: k for p, k in real.items() if got.get(p) != k}}
        # racing histories: the emitters look at the file system when they *process* a record (isdir, walk of a rename
        # destination), so a name re-used in the meantime yields stale flavours and stale synthetic sub-events; only
        # "every entry that really exists has been reported" is schedule-independent
        missing = {p: k for p, k in real.items() if p not in got}
        return {"phantom": {}, "missing": missing} if missing else None

    def judge(self, run, res, case):
        v = []
        osk = case["os"]
        if osk == "macos" and not run.recursive:
            # an event is "below the root's direct children" when none of its paths is the root or a direct child
            below = [e["shape"] for e in run.events if not any(p and (p == "root" or fm.parent(p) == "root") for p in (e["shape"][2], e["shape"][3]))]
            if below:
                v.append(Violation("scope", "C20:macos:nonrecursive-reports-below-children", f"{below[:3]}"))
            return v
        if res.get("replay"):
            d = res["replay"]
            what = ("phantom" if d["phantom"] else "") + ("missing" if d["missing"] else "")
            v.append(Violation("replay", f"C20:{osk}:replay-mismatch:{what}:{'rec' if run.recursive else 'nonrec'}", f"{d}; ops={case['ops']} pre={case['pre']}"))
        movein_dsts = [op[2] for op in case["ops"] if op[0] in ("movein_file", "movein_tree")]
        # an entry that was moved in and renamed within one latency window is, for the documented native semantics,
        # indistinguishable from a plain rename (its records carry no created flag): such sources are excused
        unknown = [sh for sh in getattr(run, "unknown_move_sources", None) or [] if not any(fm.is_under(sh[2], d) for d in movein_dsts)]
        if (case["paced"] or case.get("grouped")) and run.recursive and unknown:
            # the emitter saw complete operations (paced, or a complete group): a moved event's source must be an entry the
            # stream itself has accounted for (present at start or reported created / moved there) - otherwise a consumer
            # that mirrors the tree from the stream is told to move something it has never heard of
            v.append(Violation("replay", f"C20:{osk}:moved-from-unreported-source", f"{unknown[:3]}; ops={case['ops']} pre={case['pre']}"))
        # paced contracts: rename inside, move in, move out
        for c in run.contracts:
            if not (c["drained"] and c["clean_start"]):
                continue
            k = c["op"][0]
            if k not in ("rename", "moveout", "movein_file", "movein_tree"):
                continue
            evs = [e["shape"] for e in run.events if e["opi"] == c["opi"] and e["phase"] == "ops"]
            m_before = None
            need = {sh for sh in c["R"] if sh[0] in ("moved", "created", "deleted")}
            if osk == "windows":
                need = {(sh[0], False if sh[0] == "deleted" else sh[1], sh[2], sh[3], sh[4]) for sh in need}
                got = {(sh[0], False if sh[0] == "deleted" else sh[1], sh[2], sh[3], sh[4]) for sh in evs}
            else:
                got = set(evs)
            missing = need - got
            if missing:
                kinds = sorted({("syn-" if x[4] else "") + x[0] for x in missing})
                v.append(Violation("contract", f"C20:{osk}:{k}:missing:{','.join(kinds)}", f"op {c['op']}: missing {sorted(missing)} delivered {evs}"))
                break
            prim = [x for x in evs if x[0] in ("moved", "created", "deleted") and not x[4]]
            if len(prim) != len(set(prim)):
                v.append(Violation("contract", f"C20:{osk}:{k}:duplicate-primary", f"op {c['op']}: {evs}"))
                break
        if "root" not in run.model.t:
            n = len([e for e in run.events if e["shape"][0] == "deleted" and e["shape"][2] == "root"])
            if n != 1:
                v.append(Violation("root", f"C20:{osk}:root-deleted-events={n}", f"{[e['shape'] for e in run.events[-4:]]}"))
            if any(nm.startswith("Em") for nm in res["alive_before_stop"]):
                v.append(Violation("root", f"C20:{osk}:emitter-alive-after-root-deleted", str(res["alive_before_stop"])))
        if run.k32 is not None:
            enc = [[(a, nm) for a, nm in b] for b in run.k32.encoded]
            dec = [b for b in run.k32.decoded if not (len(b) == 1 and b[0][0] == 0xFFFE)]
            if enc != dec:
                v.append(Violation("decoder", "C20:windows:decoded-records!=encoded-records", f"encoded {enc[:3]} decoded {dec[:3]}"))
        return v
