"""C16 - SkipRepeatsQueue/EventQueue drops only true consecutive duplicates and never anything else."""
from __future__ import annotations

import copy
import random

from . import prims
from .scenario import Scenario, Violation, draw_sched, drop_each, simpler_sched

# item alphabet: (event class name, src, dest, synthetic, watch index)
ALPHABET = [
    ("FileCreatedEvent", "a", "", False, 0),
    ("DirCreatedEvent", "a", "", False, 0),
    ("FileDeletedEvent", "a", "", False, 0),
    ("FileCreatedEvent", "b", "", False, 0),
    ("FileCreatedEvent", "a", "", False, 1),
    ("FileCreatedEvent", "a", "", True, 0),
    ("FileMovedEvent", "a", "b", False, 0),
    ("DirMovedEvent", "a", "b", False, 0),
    ("FileModifiedEvent", "a", "", False, 0),
    ("FileClosedEvent", "a", "", False, 0),
    # base-class instances and a user subclass: equal field values, different class
    ("FileSystemMovedEvent", "a", "b", False, 0),
    ("FileSystemEvent", "a", "", False, 0),
    ("SubFileCreatedEvent", "a", "", False, 0),
]


class C16(Scenario):
    prop = "C16"
    level = "exploration"
    rule = (
        "case = (1-3 producer programs over a 10-item alphabet of real (event, watch) tuples whose members differ in exactly one of class / path / "
        "dest / synthetic flag / watch, consumer mode, scheduler configuration) or a sequential put/get program compared step by step with a reference "
        "model; distinct = distinct (program digest, interleaving digest); non-trivial = at least one non-default scheduling decision"
    )
    components = {
        "real": ["watchdog.utils.bricks.SkipRepeatsQueue", "watchdog.observers.api.EventQueue", "watchdog.observers.api.ObservedWatch", "watchdog.events.* dataclasses (equality)", "stdlib queue.Queue"],
        "simulated": ["threading.Lock/Condition inside queue.Queue", "thread scheduling (statement and boolean-operand pre-emption points instrumented into bricks.py; queue.py runs under its own mutex whose operations are yield points)", "clock (queue timeouts)"],
    }
    assumptions = ["deque operations are atomic under the GIL", "the queue's own mutex makes _put/_get a total order (recorded by a logging subclass inside the mutex)"]
    budget = {"quick": 20, "thorough": 300, "minimise": 60}
    design_ref = "DESIGN.md 3.3, 4/C16"
    level_text = ("Seeded search over multi-producer/consumer programs and interleavings (pre-emption before every statement and between the operands of and/or inside SkipRepeatsQueue.put/_put/_get) of the real "
                  "EventQueue; oracle: consumer output == _put order, every put() that did not reach _put is a justified drop (an equal item was the most recent "
                  "enqueue and still unconsumed at some instant of the call), sequential programs equal the reference model exactly (mandatory drops included).")
    level_note = "trusts GIL atomicity of deque ops and that sim Lock/Condition mirror threading semantics"
    technique = "deterministic simulation: seeded PCT/random scheduler with statement-level pre-emption (AST instrumentation) over real threads, history oracle + sequential reference model"

    # exhaustive part: every put/get sequence of length <= 6 over a two-item alphabet (3^1 + ... + 3^6 = 1092 programs),
    # for each of three alphabets whose two members differ in class only, in one field only, in the watch only
    ENUM_ALPHABETS = [(0, 1), (0, 3), (0, 4), (6, 10), (0, 12), (0, 5)]
    ENUM_PER_ALPHABET = sum(3 ** n for n in range(1, 7))

    def gen_enum(self, idx):
        a = self.ENUM_ALPHABETS[idx // self.ENUM_PER_ALPHABET]
        k = idx % self.ENUM_PER_ALPHABET
        n = 1
        while k >= 3 ** n:
            k -= 3 ** n
            n += 1
        ops = []
        for _ in range(n):
            d = k % 3
            k //= 3
            ops.append(["get"] if d == 2 else ["put", a[d]])
        return {"mode": "seq", "ops": ops, "enumerated": True, "sched": {"policy": "sticky", "p_switch": 0.3, "line": False, "step_cap": 50_000, "horizon": 600}}

    def gen_case(self, seed, tier, idx):
        if idx < len(self.ENUM_ALPHABETS) * self.ENUM_PER_ALPHABET:
            return self.gen_enum(idx)
        rng = random.Random(f"{seed}:ops")
        cfg = random.Random(f"{seed}:cfg")
        k = rng.choice([2, 2, 3, 4])
        alpha = rng.sample(range(len(ALPHABET)), k)
        if rng.random() < 0.3:
            ops = []
            for _ in range(rng.randrange(2, 12)):
                ops.append(["put", rng.choice(alpha)] if rng.random() < 0.65 else ["get"])
            return {"mode": "seq", "ops": ops, "sched": {"policy": "sticky", "p_switch": 0.3, "line": False, "step_cap": 50_000, "horizon": 600}}
        nprod = rng.choice([1, 2, 2, 3])
        prods = [[rng.choice(alpha) for _ in range(rng.randrange(1, 7))] for _ in range(nprod)]
        sched = draw_sched(cfg, line=True, pct_k=400, step_cap=80_000, horizon=600)
        sched["instr"] = cfg.random() < 0.6
        return {"mode": "conc", "producers": prods, "get_timeout": rng.choice([None, None, 1.0]), "consumer_pause": rng.choice([0, 0, 1, 3]), "sched": sched}

    def shrink(self, case):
        if case["mode"] == "seq":
            for cand in drop_each(case["ops"]):
                c = copy.deepcopy(case)
                c["ops"] = cand
                yield c
            return
        for i, p in enumerate(case["producers"]):
            for cand in drop_each(p):
                c = copy.deepcopy(case)
                c["producers"][i] = cand
                if not cand:
                    del c["producers"][i]
                if c["producers"]:
                    yield c
        if case["get_timeout"] is not None:
            c = copy.deepcopy(case)
            c["get_timeout"] = None
            yield c
        if case["consumer_pause"]:
            c = copy.deepcopy(case)
            c["consumer_pause"] = 0
            yield c
        yield from simpler_sched(case)

    def run_case(self, case, sched_seed, trace=None):
        import queue as qmod

        import watchdog.events as wev
        import watchdog.observers.api as api
        import watchdog.utils.bricks as bricks

        SRQ = bricks.SkipRepeatsQueue
        prims.enable_monitoring([bricks, qmod], instr_funcs=[SRQ.put, SRQ._put, SRQ._get], instr_on=bool(case["sched"].get("instr")))
        watches = [api.ObservedWatch("/w0", recursive=True), api.ObservedWatch("/w1", recursive=True)]

        class SubFileCreatedEvent(wev.FileCreatedEvent):
            """A user subclass next to its parent: same field values, different class."""

        def mk(i):
            cls, src, dest, syn, w = ALPHABET[i]
            C = SubFileCreatedEvent if cls == "SubFileCreatedEvent" else getattr(wev, cls)
            ev = C(src, dest, is_synthetic=syn) if dest else C(src, is_synthetic=syn)
            return (ev, watches[w])

        hist = {"tl": [], "puts": [], "out": []}
        STOP = object()

        def install(p, sim):
            prims.install_base(p, modules_threading=[api], modules_time=[])

        def main():
            sim = prims.cur_sim()

            class LogQ(api.EventQueue):
                # both run inside the queue's mutex; the visible state change (_last_item) happens somewhere
                # between the two stamps, so every event carries the interval [before, after]
                def _put(self, item):
                    s0 = sim.next_seq()
                    super()._put(item)
                    hist["tl"].append(("_put", sim.next_seq(), item, s0))

                def _get(self):
                    s0 = sim.next_seq()
                    item = super()._get()
                    hist["tl"].append(("_get", sim.next_seq(), item, s0))
                    return item

            q = LogQ()
            keyof = {}

            def put(pi, k):
                item = mk(k)
                keyof[id(item)] = k
                rec = {"p": pi, "k": k, "inv": sim.next_seq(), "id": id(item), "item": item}
                hist["puts"].append(rec)
                try:
                    q.put(item)
                except Exception as e:  # noqa: BLE001 - a finding about the library, not a harness error
                    hist.setdefault("raised", []).append(("put", type(e).__name__, str(e)[:100]))
                rec["ret"] = sim.next_seq()
                sim.rec("put", pi, k)

            if case["mode"] == "seq":
                model = []
                last = None  # (key, still queued?) reference model of "most recent enqueue"
                for op in case["ops"]:
                    if op[0] == "put":
                        k = op[1]
                        n0 = q.qsize()
                        put(0, k)
                        accepted = q.qsize() == n0 + 1
                        expect = not (last is not None and last[0] == k and last[1])
                        hist.setdefault("seqlog", []).append(("put", k, accepted, expect))
                        if expect:
                            model.append(k)
                            last = [k, True]
                    else:
                        try:
                            item = q.get_nowait()
                            got = keyof[id(item)]
                        except qmod.Empty:
                            got = None
                        exp = model.pop(0) if model else None
                        if not model and last is not None:
                            last[1] = False
                        hist.setdefault("seqlog", []).append(("get", got, exp))
                        sim.rec("get", got)
                return

            def producer(pi):
                for k in case["producers"][pi]:
                    put(pi, k)

            def consumer():
                while True:
                    try:
                        item = q.get(block=True, timeout=case["get_timeout"])
                    except qmod.Empty:
                        continue
                    except Exception as e:  # noqa: BLE001
                        hist.setdefault("raised", []).append(("get", type(e).__name__, str(e)[:100]))
                        return
                    if item is STOP:
                        return
                    hist["out"].append(id(item))
                    sim.rec("got", keyof.get(id(item)))
                    for _ in range(case["consumer_pause"]):
                        sim.yield_point("pause")

            ps = [sim.spawn(lambda i=i: producer(i), f"producer{i}", "actor") for i in range(len(case["producers"]))]
            cons = sim.spawn(consumer, "consumer", "actor")
            for t in ps:
                sim.block(lambda t=t: t.state == "D", why="join-actor")
            if case["get_timeout"] is None:
                sim.wait_quiescent()
            else:
                sim.block(lambda: len(q.queue) == 0, why="drain")
            q.put(STOP)
            sim.block(lambda: cons.state == "D", why="join-consumer")

        def keyname(item):
            p = [r for r in hist["puts"] if r["item"] is item]
            return p[0]["k"] if p else "STOP"

        def finish(sim, verdict):
            v = []
            if verdict is not None:
                v.append(Violation(verdict[0], f"C16:{verdict[0]}", str(verdict[1])))
                return v, {}
            for u in sim.uncaught:
                if u["kind"] != "actor":
                    v.append(Violation("uncaught", f"C16:uncaught:{u['exc']}", str(u)))
            for name, exc, msg in hist.get("raised", []):
                v.append(Violation("raised", f"C16:{name}-raised:{exc}", f"{name}() raised {exc}: {msg}"))
            v.extend(self.oracle(case, hist))
            return v, {"extra": {"enumerated_sequential_programs": 1 if case.get("enumerated") else 0}, "sample": {"timeline": [(e[0], e[3], e[1], keyname(e[2])) for e in hist["tl"]][:20], "seqlog": hist.get("seqlog")}}

        return self.simulate(case, sched_seed, trace, install, main, finish)

    @staticmethod
    def oracle(case, hist):
        v = []
        if case["mode"] == "seq":
            for rec in hist.get("seqlog", []):
                if rec[0] == "put" and rec[2] != rec[3]:
                    what = "unjustified-drop" if rec[3] else "duplicate-accepted"
                    v.append(Violation("model", f"C16:seq:{what}", f"sequential program {case['ops']}: log {hist['seqlog']}"))
                    break
                if rec[0] == "get" and rec[1] != rec[2]:
                    v.append(Violation("model", "C16:seq:wrong-get", f"sequential program {case['ops']}: log {hist['seqlog']}"))
                    break
            return v
        byid = {p["id"]: p for p in hist["puts"]}
        tl = hist["tl"]
        put_ids = [id(c) for a, b, c, s0 in tl if a == "_put" and isinstance(c, tuple)]
        get_ids = [id(c) for a, b, c, s0 in tl if a == "_get" and isinstance(c, tuple)]
        # FIFO / nothing lost / nothing invented: consumer output == _put order
        if hist["out"] != put_ids:
            v.append(Violation("fifo", "C16:out!=put-order", f"consumer got {[byid[i]['k'] if i in byid else '?' for i in hist['out']]} but _put order was {[byid[i]['k'] for i in put_ids]}"))
        if get_ids != put_ids:
            v.append(Violation("fifo", "C16:_get-order!=_put-order", ""))
        accepted = set(put_ids)
        # windows during which "the most recent enqueue is an item with key k and it is still queued" may hold:
        # from the start of its _put to the end of its own _get or of the next _put, whichever ends first
        windows = []
        puts_tl = [(i, e) for i, e in enumerate(tl) if e[0] == "_put"]
        for n, (i, e) in enumerate(puts_tl):
            if not isinstance(e[2], tuple):
                continue
            end = float("inf")
            if n + 1 < len(puts_tl):
                end = puts_tl[n + 1][1][1]
            for g in tl[i + 1:]:
                if g[0] == "_get" and g[2] is e[2]:
                    end = min(end, g[1])
                    break
            windows.append((byid[id(e[2])]["k"], e[3], end))
        for p in hist["puts"]:
            if p["id"] in accepted or "ret" not in p:
                continue
            if not any(k == p["k"] and a <= p["ret"] and p["inv"] <= b for k, a, b in windows):
                v.append(Violation("drop", "C16:unjustified-drop", f"put of item {p['k']} by producer {p['p']} (seq {p['inv']}..{p['ret']}) was dropped although no equal item was the most recent enqueue and still queued at any instant of the call; windows={windows}"))
        return v
