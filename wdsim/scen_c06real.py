"""C06 with the real inotify and polling emitters: API call orders (from application threads and from inside
callbacks) racing file-system activity; verdicts: deadlock / hang / threads alive after stop()+join()."""
from __future__ import annotations

import os
import random

from . import fsmodel as fm
from . import prims
from .core import DONE
from .fsworld import FsRun
from .scenario import Violation, draw_sched, key_of


def gen_real_case(seed):
    rng = random.Random(f"{seed}:real")
    cfg = random.Random(f"{seed}:realcfg")
    m = fm.Model()
    pre = fm.gen_ops(rng, m, rng.randrange(1, 5), paced=False, allow={"mkdir", "makedirs", "mkfile"})
    dirs = m.dirs_in("root")
    nact = rng.choice([1, 2, 2, 3])
    progs = []
    for a in range(nact):
        prog = []
        for _ in range(rng.randrange(1, 6)):
            r = rng.random()
            if r < 0.3:
                prog.append(["schedule", rng.choice(dirs), rng.random() < 0.7, rng.randrange(2)])
            elif r < 0.45:
                prog.append(["unschedule", rng.choice(dirs), rng.random() < 0.7])
            elif r < 0.52:
                prog.append(["unschedule_all"])
            elif r < 0.85:
                d = rng.choice(dirs)
                prog.append(["fs", rng.choice(["mkfile", "mkdir", "rm", "mvout"]), d + "/" + rng.choice("xyz")])
            elif r < 0.92:
                prog.append(["sleep", rng.choice([1, 600, 1100])])
            else:
                prog.append(["stop"])
        progs.append(prog)
    directed = rng.random() < 0.15
    if directed:
        # directed shape: the root goes away and stop() follows at once - the emitter's own shutdown races the observer's
        progs = [[["schedule", "root", True, 0]] + [["fs", "mkfile", rng.choice(dirs) + "/" + rng.choice("xyz")] for _ in range(rng.randrange(0, 3))]]
        if rng.random() < 0.5:
            progs.append([["sleep", rng.choice([1, 600])], ["stop"]])
    pos = rng.randrange(len(progs[0]) + 1)
    progs[0].insert(pos, ["start"])
    if directed:
        progs[0].append(["rmroot"])
    if rng.random() < 0.12:
        prog = progs[rng.randrange(len(progs))]
        prog.insert(rng.randrange(len(prog) + 1), ["start"])  # start() a second time
    if rng.random() < 0.2:
        progs[0].append(["rmroot"])
    sched = draw_sched(cfg, line=True, pct_k=2500, step_cap=400_000, horizon=3600, pct_share=0.25)
    if sched.get("p_line", 0) > 0.05:
        sched["p_line"] = 0.05
    if directed:
        # the race sits between two consecutive statements of on_thread_stop(): statement-level pre-emption is needed
        sched["line"] = True
        if sched["policy"] != "pct":
            sched["policy"] = "random"
            sched["p_line"] = cfg.choice([0.05, 0.15, 0.3])
    return {"mode": "real", "pre": pre, "progs": progs, "backend": cfg.choice(["inotify", "inotify", "polling"]),
            "reentrant": rng.choice([None, None, "unschedule_all", "stop", "schedule"]), "watch": {"recursive": True, "root_kind": "str", "spelling": "abs", "observer_timeout": cfg.choice([1.0, 1.0, 0.25, 0.05])},
            "faults": {"short_read": [rng.choice([32, 64, 0])]} if rng.random() < 0.3 else {}, "sched": sched, "no_final_stop": cfg.random() < 0.5}


def run_real_case(scn, case, sched_seed, trace):
    case = dict(case)
    case["watch"] = dict(case["watch"], backend=case["backend"])
    run = FsRun(case)
    res = {"calls": []}

    def main():
        sim = prims.cur_sim()
        run.apply_pre(case["pre"])
        fired = [False]

        def hook(handler, event):
            if case["reentrant"] and not fired[0]:
                fired[0] = True
                do(["stop"] if case["reentrant"] == "stop" else ["unschedule_all"] if case["reentrant"] == "unschedule_all" else ["schedule", "root", True, 1], "H")

        obs = run.build(handler_hook=hook)
        run.handlers.append(run.H(1))
        watches = {}
        state = {"started": False}
        nout = [0]

        def do(op, who):
            k = op[0]
            try:
                if k == "schedule":
                    if op[1] in run.model.t:
                        w = obs.schedule(run.handlers[op[3]], os.fsdecode(run.real(op[1])), recursive=op[2])
                        watches[(op[1], op[2])] = w
                elif k == "unschedule":
                    w = watches.pop((op[1], op[2]), None)
                    if w is not None:
                        obs.unschedule(w)
                elif k == "unschedule_all":
                    obs.unschedule_all()
                    watches.clear()
                elif k == "start":
                    obs.start()
                    state["started"] = True
                elif k == "stop":
                    obs.stop()
                elif k == "sleep":
                    sim.sleep(op[1] / 1024)
                elif k == "fs":
                    sim.yield_point("op")
                    p = run.real(op[2])
                    if op[1] == "mkfile":
                        with open(p, "w"):
                            pass
                    elif op[1] == "mkdir":
                        os.mkdir(p)
                    elif op[1] == "mvout":
                        # leaves the watched tree: an unmatched IN_MOVED_FROM sits out the pairing delay in the emitter
                        nout[0] += 1
                        os.rename(p, run.real(f"out/m{nout[0]}"))
                    else:
                        if os.path.isdir(p):
                            os.rmdir(p)
                        else:
                            os.unlink(p)
                elif k == "rmroot":
                    import shutil

                    sim.yield_point("op")
                    shutil.rmtree(run.real("root"))
                res["calls"].append((who, k, None))
            except (OSError, KeyError, RuntimeError) as e:
                res["calls"].append((who, k, type(e).__name__))
            except Exception as e:  # noqa: BLE001 - no API call may fail in any other way, whatever it races with
                import traceback

                fn = traceback.extract_tb(e.__traceback__)[-1].name
                res["calls"].append((who, k, type(e).__name__))
                res.setdefault("api_raised", []).append((k, type(e).__name__, fn, str(e)[:200]))
            sim.rec("call", who, op, res["calls"][-1][2])

        others = []
        for ai in range(1, len(case["progs"])):
            def prog(ai=ai):
                for op in case["progs"][ai]:
                    do(op, f"A{ai}")
            others.append(sim.spawn(prog, f"actor{ai}", "actor"))
        for op in case["progs"][0]:
            do(op, "A0")
        for t in others:
            sim.block(lambda t=t: t.state == DONE, why="join-actor")
        if not (case.get("no_final_stop") and any(k == "stop" and exc is None for _, k, exc in res["calls"])):
            do(["stop"], "A0")
        if state["started"]:
            obs.join()
        res["alive"] = [t.name for t in sim.tasks if t.kind == "lib" and t.state != DONE]
        res["open_fds"] = run.kshim.open_fds()
        res["done"] = True

    def finish(sim, verdict):
        v = []
        try:
            if verdict is not None:
                kind, info = verdict
                who = sorted({f"{n.split('#')[0]}:{w}" for n, k, w in info}) if kind != "stepcap" else []
                v.append(Violation(kind, f"C06:real:{case['backend']}:{kind}:" + ",".join(who), f"{kind}: {info}; calls={res['calls']}"))
            for u in sim.uncaught:
                if u["kind"] != "actor":
                    fn = u["where"][-1][2] if u["where"] else "?"
                    v.append(Violation("uncaught", f"C06:real:uncaught:{u['task'].split('#')[0]}:{u['exc']}:{fn}", str(u)))
            for k, exc, fn, msg in res.get("api_raised", []):
                v.append(Violation("api-raised", f"C06:real:{k}-raised:{exc}:{fn}", f"{k}() raised {exc}: {msg}; calls={res['calls']}"))
            if res.get("done") and res["alive"]:
                v.append(Violation("thread-alive", f"C06:real:{case['backend']}:alive-after-stop-join:" + ",".join(sorted({n.split('#')[0] for n in res['alive']})), f"{res['alive']}; calls={res['calls']}"))
        finally:
            run.cleanup()
        return v, {"sample": {"mode": "real", "backend": case["backend"], "progs": case["progs"], "calls": res["calls"][:20]}, "hist_key": key_of([case["pre"], case["progs"], case["backend"], case["reentrant"]])}

    try:
        return scn.simulate(case, sched_seed, trace, run.install, main, finish)
    finally:
        run.cleanup()
