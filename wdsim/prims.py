"""Simulated synchronisation primitives, clock and the module-attribute seams (DESIGN.md 2.2)."""
from __future__ import annotations

import collections
import queue as _queue_mod
import sys
import threading as _real_threading
import time as _real_time
import types

from . import core
from .core import DONE, Sim

CURRENT = [None]  # the Sim of the run in progress in this process


def cur_sim() -> Sim:
    return CURRENT[0]


class Lock:
    def __init__(self):
        self.sim = CURRENT[0]
        self.owner = None

    def acquire(self, blocking=True, timeout=-1):
        s = self.sim
        s.yield_point("acq")
        if self.owner is None:
            self.owner = s.cur
            return True
        if s.aborting:
            return True
        if not blocking:
            return False
        ok = s.block(lambda: self.owner is None, None if timeout is None or timeout < 0 else timeout, why="lock")
        if ok:
            self.owner = s.cur
        return ok

    def release(self):
        if self.owner is None:
            if self.sim.aborting:
                return
            raise RuntimeError("release unlocked lock")
        self.owner = None
        self.sim.yield_point("rel")

    def locked(self):
        return self.owner is not None

    __enter__ = acquire

    def __exit__(self, *a):
        self.release()


class RLock:
    def __init__(self):
        self.sim = CURRENT[0]
        self.owner = None
        self.count = 0

    def acquire(self, blocking=True, timeout=-1):
        s = self.sim
        me = s.cur
        if self.owner is me:
            self.count += 1
            return True
        s.yield_point("racq")
        if self.owner is None:
            self.owner = s.cur
            self.count = 1
            return True
        if s.aborting:
            return True
        if not blocking:
            return False
        ok = s.block(lambda: self.owner is None, None if timeout is None or timeout < 0 else timeout, why="rlock")
        if ok:
            self.owner = s.cur
            self.count = 1
        return ok

    def release(self):
        if self.owner is not self.sim.cur:
            if self.sim.aborting:
                return
            raise RuntimeError("cannot release un-acquired lock")
        self.count -= 1
        if self.count == 0:
            self.owner = None
            self.sim.yield_point("rrel")

    __enter__ = acquire

    def __exit__(self, *a):
        self.release()

    def _is_owned(self):
        return self.owner is self.sim.cur

    def _release_save(self):
        c = self.count
        self.count = 0
        self.owner = None
        return c

    def _acquire_restore(self, c):
        s = self.sim
        s.block(lambda: self.owner is None, why="rlock-restore")
        self.owner = s.cur
        self.count = c


class Condition:
    def __init__(self, lock=None):
        self.sim = CURRENT[0]
        self.lock = lock if lock is not None else RLock()
        self.waiters = collections.deque()
        self.acquire = self.lock.acquire
        self.release = self.lock.release

    def __enter__(self):
        return self.lock.__enter__()

    def __exit__(self, *a):
        return self.lock.__exit__(*a)

    def _is_owned(self):
        if isinstance(self.lock, RLock):
            return self.lock._is_owned()
        return self.lock.owner is self.sim.cur

    def wait(self, timeout=None):
        s = self.sim
        if not self._is_owned():
            if s.aborting:
                raise core.SimAbort
            raise RuntimeError("cannot wait on un-acquired lock")
        w = [False]
        self.waiters.append(w)
        if isinstance(self.lock, RLock):
            saved = self.lock._release_save()
        else:
            self.lock.owner = None
            saved = None
        ok = s.block(lambda: w[0], timeout, why="cond")
        if not ok:
            try:
                self.waiters.remove(w)
            except ValueError:
                pass
        if saved is not None:
            self.lock._acquire_restore(saved)
        else:
            s.block(lambda: self.lock.owner is None, why="cond-relock")
            self.lock.owner = s.cur
        return ok

    def wait_for(self, predicate, timeout=None):
        endtime = None
        waittime = timeout
        result = predicate()
        while not result:
            if waittime is not None:
                if endtime is None:
                    endtime = self.sim.now / core.TICKS + waittime
                else:
                    waittime = endtime - self.sim.now / core.TICKS
                    if waittime <= 0:
                        break
            self.wait(waittime)
            result = predicate()
        return result

    def notify(self, n=1):
        if not self._is_owned() and not self.sim.aborting:
            raise RuntimeError("cannot notify on un-acquired lock")
        for _ in range(n):
            if not self.waiters:
                break
            w = self.waiters.popleft()
            w[0] = True
        self.sim.yield_point("notify")

    def notify_all(self):
        self.notify(len(self.waiters))


class Event:
    def __init__(self):
        self.sim = CURRENT[0]
        self.flag = False

    def is_set(self):
        return self.flag

    isSet = is_set

    def set(self):
        self.flag = True
        self.sim.yield_point("evset")

    def clear(self):
        self.flag = False

    def wait(self, timeout=None):
        s = self.sim
        if self.flag:
            return True
        if timeout is not None and timeout <= 0:
            s.yield_point("evwait0")
            return self.flag
        return s.block(lambda: self.flag, timeout, why="event")


class SimTime:
    """Virtual clock namespace replacing the `time` module inside watchdog modules."""

    def __getattr__(self, name):
        return getattr(_real_time, name)

    @staticmethod
    def time():
        return CURRENT[0].time()

    @staticmethod
    def monotonic():
        return CURRENT[0].monotonic()

    @staticmethod
    def sleep(dt):
        if dt < 0:
            raise ValueError("sleep length must be non-negative")
        CURRENT[0].sleep(dt)


def _sim_monotonic():
    return CURRENT[0].monotonic()


class _ThreadNS:
    """Stands for `threading.Thread` inside `watchdog.utils`: BaseThread calls
    threading.Thread.__init__(self) and threading.Thread.start(self) explicitly."""

    @staticmethod
    def __init__(self_, *a, **kw):
        _real_threading.Thread.__init__(self_, *a, **kw)
        self_._sim_task = None

    @staticmethod
    def start(self_):
        sim = CURRENT[0]
        if getattr(self_, "_sim_task", None) is not None:
            raise RuntimeError("threads can only be started once")
        name = type(self_).__name__
        # fault: the OS refuses to create the thread ("can't start new thread") for the k-th start of a class
        plan = sim.cfg.get("thread_start_fail") or {}
        for prefix, k in plan.items():
            if name.startswith(prefix):
                seen = sim.probes.get("_thread_starts_" + prefix, 0)
                sim.probes["_thread_starts_" + prefix] = seen + 1
                if seen == k:
                    sim.fault_fired("thread_start:" + prefix)
                    sim.rec("thread-start-failed", name)
                    raise RuntimeError("can't start new thread")
        n = sum(1 for t in sim.tasks if t.name.split("#")[0] == name)
        self_._sim_task = sim.spawn(self_.run, f"{name}#{n}", kind="lib")
        self_._sim_task.thread_obj = self_
        sim.rec("spawn", self_._sim_task.name)
        sim.yield_point("spawn")


def sim_join(self_, timeout=None):
    t = getattr(self_, "_sim_task", None)
    sim = CURRENT[0]
    if t is None:
        raise RuntimeError("cannot join thread before it is started")
    if t is sim.cur:
        raise RuntimeError("cannot join current thread")
    sim.block(lambda: t.state == DONE, timeout, why=("join", t.name))


def sim_ident(self_):
    """Thread.ident: None until the thread has been started (tasks never start the real threading.Thread)."""
    t = getattr(self_, "_sim_task", None)
    return None if t is None else 10_000 + t.tid


def sim_is_alive(self_):
    t = getattr(self_, "_sim_task", None)
    return t is not None and t.state != DONE


def _sim_current_thread():
    """threading.current_thread() inside the library: the BaseThread object of the running task (tasks run on raw
    _thread threads, so the real function would return a dummy object and `current_thread() is self` would never hold)."""
    sim = CURRENT[0]
    if sim is not None and sim.cur is not None and sim.cur.thread_obj is not None:
        return sim.cur.thread_obj
    return _real_threading.current_thread()


def make_threading_proxy():
    ns = types.SimpleNamespace()
    ns.Lock = Lock
    ns.RLock = RLock
    ns.Condition = Condition
    ns.Event = Event
    ns.Thread = _ThreadNS
    ns.current_thread = _sim_current_thread
    ns.get_ident = lambda: id(_sim_current_thread())
    return ns


THREADING_PROXY = make_threading_proxy()
TIME_PROXY = SimTime()


class Patcher:
    """Rebinds module attributes for the duration of a run and restores them afterwards."""

    def __init__(self):
        self.saved = []

    def set(self, obj, name, value):
        missing = object()
        old = obj.__dict__.get(name, missing) if isinstance(obj, type) else getattr(obj, name, missing)
        self.saved.append((obj, name, old, missing))
        setattr(obj, name, value)

    def restore(self):
        for obj, name, old, missing in reversed(self.saved):
            if old is missing:
                try:
                    delattr(obj, name)
                except AttributeError:
                    pass
            else:
                setattr(obj, name, old)
        self.saved.clear()


def install_base(p: Patcher, modules_threading=(), modules_time=()):
    """threading/time seams for the given watchdog modules + stdlib queue + BaseThread.join/is_alive."""
    import watchdog.utils as wu

    for m in modules_threading:
        p.set(m, "threading", THREADING_PROXY)
    for m in modules_time:
        p.set(m, "time", TIME_PROXY)
    # every other loaded watchdog module that holds a reference to the real `time` / `threading` module gets the seam
    # too: a change to the library may start using the clock or a lock in a module that did not before
    done_t = {id(m) for m in modules_time}
    done_th = {id(m) for m in modules_threading}
    for name, m in list(sys.modules.items()):
        if m is None or not (name == "watchdog" or name.startswith("watchdog.")):
            continue
        if getattr(m, "time", None) is _real_time and id(m) not in done_t:
            p.set(m, "time", TIME_PROXY)
        if getattr(m, "threading", None) is _real_threading and id(m) not in done_th and name != "watchdog.utils":
            p.set(m, "threading", THREADING_PROXY)
    p.set(_queue_mod, "threading", THREADING_PROXY)
    p.set(_queue_mod, "time", _sim_monotonic)
    p.set(wu, "threading", THREADING_PROXY)
    p.set(wu.BaseThread, "join", sim_join)
    p.set(wu.BaseThread, "is_alive", sim_is_alive)
    p.set(wu.BaseThread, "ident", property(sim_ident))
    p.set(wu.BaseThread, "native_id", property(sim_ident))


# ---------------------------------------------------------------------- line-level pre-emption
def enable_monitoring(modules, instr_funcs=(), instr_on=False):
    """Statement-level pre-emption points are compiled into the watchdog modules by wdsim.instrument (AST
    instrumentation at import); whether a run uses them is Sim.monitor_on.  Kept for call-site compatibility."""
    return 0
