"""Determinism self-test (DESIGN.md 2.8): the same run index must give the same digest in different
processes, under different PYTHONHASHSEED values, in a different order of execution within the process and
with other processes loading the machine."""
from __future__ import annotations

import json
import os
import subprocess
import sys
import time

from . import registry, runner


def digests_inproc(prop, base_seed, idxs, tier="quick"):
    scn = runner.load_scenario(prop)
    out = {}
    for i in idxs:
        seed = runner.run_seed(base_seed, i)
        case = scn.gen_case(seed, tier, i)
        if case is None:
            break
        res = runner.execute(scn, case, seed)
        out[str(i)] = [res["digest"], [v["signature"] for v in res["violations"]], bool(res["harness_error"])]
    return out


def main(name, base_seed, args):
    if name == "selftest-digests":  # internal: child mode
        spec = json.loads(os.environ["WDSIM_SELFTEST"])
        d = digests_inproc(spec["prop"], base_seed, spec["idxs"])
        print("DIGESTS " + json.dumps(d))
        return 0
    props = os.environ.get("WDSIM_PROPS", "").split(",") if os.environ.get("WDSIM_PROPS") else registry.all_props()
    n = args.runs or 400
    nsplit = 8
    bad = 0
    t0 = time.time()
    for prop in props:
        procs = []
        for variant, (hs, rev) in enumerate([("0", False), ("4242", True)]):
            for k in range(nsplit):
                idxs = list(range(k, n, nsplit))
                if rev:
                    idxs.reverse()
                env = dict(os.environ, PYTHONHASHSEED=hs, WDSIM_SELFTEST=json.dumps({"prop": prop, "idxs": idxs}))
                p = subprocess.Popen([sys.executable, os.path.join(runner.VERIF, "check"), "selftest-digests", "--seed", str(base_seed)], stdout=subprocess.PIPE, stderr=subprocess.PIPE, text=True, env=env)
                procs.append((variant, p))
        res = [{}, {}]
        for variant, p in procs:
            try:
                out, err = p.communicate(timeout=900)
            except subprocess.TimeoutExpired:
                p.kill()
                out, err = "", "timeout"
            line = [ln for ln in out.splitlines() if ln.startswith("DIGESTS ")]
            if not line:
                print(f"HARNESS-ERROR selftest {prop}: child failed: {err[-500:]}")
                bad += 1
                continue
            res[variant].update(json.loads(line[0][8:]))
        diff = [i for i in res[0] if res[0][i] != res[1].get(i)]
        herr = [i for i in res[0] if res[0][i][2]]
        print(f"selftest-determinism property={prop} runs={len(res[0])} differing={len(diff)} harness_errors={len(herr)} t={time.time() - t0:.0f}s")
        if diff:
            bad += 1
            print("  differing run indices:", diff[:20])
        if herr:
            bad += 1
            print("  harness errors at run indices:", herr[:20])
    return 2 if bad else 0
