"""C12 - every descriptor and thread is released exactly once, also on failure (DESIGN.md 4/C12)."""
from __future__ import annotations

import copy
import errno
import os
import random

from . import fsmodel as fm
from . import prims
from .core import DONE
from .fsworld import FsRun
from .scen_fs import ASSUME, COMPONENTS, generic_violations
from .scenario import Scenario, Violation, draw_sched, drop_each, key_of, simpler_sched

INIT_ERRNOS = [errno.EMFILE, errno.ENFILE, errno.ENOMEM]
ADD_ERRNOS = [errno.ENOENT, errno.ENOSPC, errno.EACCES, errno.ENOTDIR, errno.ENOMEM]
LEVELS = ["inotify", "buffer", "emitter", "schedule", "start"]


def nfds():
    return len(os.listdir("/proc/self/fd"))


class C12(Scenario):
    prop = "C12"
    level = "fault_enumeration"
    design_ref = "DESIGN.md 4/C12"
    components = COMPONENTS
    assumptions = ASSUME + ["each system call fails only with errnos its man page lists; a missing root is produced for real", "virtual descriptor table cross-checked against /proc/self/fd at the end of every run"]
    budget = {"quick": 30, "thorough": 600, "minimise": 60}
    rule = ("three workloads chosen by run index: (a) close/read protocol - InotifyBuffer/InotifyEmitter closed by a task racing the reader thread (statement-level pre-emption inside Inotify.close/"
            "read_events, file-system activity in flight, close placed after 0..N actor steps); (b) failing construction - for a recursive tree with m directories the failure is injected at "
            "inotify_init, pipe, at add_watch number k for every k in 0..m in turn (errno cycles over the man-page lists) and at the start of the reader and the emitter thread (\"can't start new thread\") through Inotify(), InotifyBuffer(), emitter.start(), "
            "observer.schedule() on a running observer and observer.start(), plus a really missing root; (c) cycles of schedule/unschedule/start/stop incl. failing ones on the real kernel; "
            "distinct = distinct (workload, fault position, errno, history, interleaving); non-trivial = a fault fired or a pre-emption was taken")
    level_text = ("Descriptor state machine of the kernel shim (open -> closed; any read/poll/write/close on a closed descriptor, double close) plus the task table: after close()/stop()/unschedule() "
                  "or after a failed schedule()/start()/constructor every inotify descriptor, wake-up pipe end and helper thread of the affected watch is released; counts return to the baseline "
                  "after every cycle; /proc/self/fd agrees with the virtual table.")
    level_note = "fault positions of workload (b) are enumerated completely per sampled tree (k = 0..m); trees, close positions and schedules are sampled"

    def gen_case(self, seed, tier, idx):
        mode = ["protocol", "construct", "cycles"][idx % 3]
        if mode == "construct":
            # 16 consecutive construct runs share one tree and enumerate every fault position of it
            t = (idx // 3) // 16
            rng = random.Random(f"{seed - idx}:{t}:tree")
        else:
            rng = random.Random(f"{seed}:ops")
        cfg = random.Random(f"{seed}:cfg")
        m = fm.Model()
        pre = fm.gen_ops(rng, m, rng.randrange(0, 6), paced=False, allow={"mkdir", "mkfile", "makedirs"})
        ndirs = len(m.dirs_in("root"))
        sched = draw_sched(cfg, line=True, pct_k=1500, step_cap=300_000, horizon=3600, pct_share=0.3)
        if sched.get("p_line", 0) == 0 and sched["policy"] != "pct":
            sched["p_line"] = 0.05
            sched["line"] = True
        case = {"mode": mode, "pre": pre, "sched": sched, "watch": {"recursive": True, "root_kind": "str"}, "faults": {}}
        if mode == "protocol":
            m.drain()
            case["level"] = rng.choice(["buffer", "buffer", "emitter", "observer"])
            # (moveout: a directory leaves the tree, so that close()/stop() can fall inside the pairing delay of its IN_MOVED_FROM -
            # what the emitter does with the held-back half afterwards must not touch the released descriptors)
            case["ops"] = fm.gen_ops(rng, m, rng.randrange(0, 6), paced=False, allow={"mkfile", "write", "mkdir", "unlink", "rename", "rmdir", "moveout"})
            case["close_after"] = rng.choice([0, 0, 0, 1, 2, 3, 5, 8, 13, 30])
            case["consumer"] = rng.random() < 0.6
            case["rmroot"] = rng.random() < 0.2  # the watched root is deleted while the reader runs, then close()/stop()
            if rng.random() < 0.3:
                case["second_closer"] = rng.randrange(1, 6)
                case["sched"]["line"] = True
                if case["sched"].get("policy") != "pct" and not case["sched"].get("p_line"):
                    case["sched"]["p_line"] = rng.choice([0.05, 0.2])
            if rng.random() < 0.4:
                case["faults"]["short_read"] = [rng.choice([32, 64, 0])]
        elif mode == "construct":
            k = (idx // 3) % 16
            positions = ["init", "pipe"] + [f"add{i}" for i in range(ndirs)] + ["missing-root", "none", "thread:InotifyBuffer", "thread:Em"]
            pos = positions[k % len(positions)]
            case["level"] = LEVELS[((idx // 3) // 16) % len(LEVELS)]
            case["alias"] = rng.random() < 0.5
            k = idx // 3
            case["position"] = pos
            if pos == "init":
                case["faults"]["init_fail"] = INIT_ERRNOS[k % len(INIT_ERRNOS)]
            elif pos == "pipe":
                case["faults"]["pipe_fail"] = errno.EMFILE
            elif pos.startswith("add"):
                case["faults"]["add_fail"] = {pos[3:]: ADD_ERRNOS[k % len(ADD_ERRNOS)]}
            elif pos.startswith("thread:"):
                if pos == "thread:Em" and case["level"] in ("inotify", "buffer"):
                    case["position"] = pos = "thread:InotifyBuffer"
                if case["level"] == "inotify":
                    case["position"] = pos = "none"
                else:
                    case["sched"]["thread_start_fail"] = {pos.split(":")[1]: 0}
        else:
            ops = []
            started = False
            scheduled = set()
            for _ in range(rng.randrange(3, 10) if tier != "thorough" or rng.random() < 0.5 else rng.randrange(10, 41)):
                r = rng.random()
                if r < 0.35:
                    p = rng.choice(["root", "root"] + (["missing"] if started else []) + [d for d in m.dirs_in("root")])
                    ops.append(["schedule", p, rng.random() < 0.7])
                    if p != "missing":
                        scheduled.add((p, ops[-1][2]))
                elif r < 0.55 and scheduled:
                    w = rng.choice(sorted(scheduled))
                    ops.append(["unschedule", w[0], w[1]])
                    scheduled.discard(w)
                elif r < 0.7 and not started:
                    ops.append(["start"])
                    started = True
                elif r < 0.8:
                    ops.append(["unschedule_all"])
                    scheduled.clear()
                elif r < 0.9 and started:
                    ops.append(["stopjoin"])
                    started = False
                    scheduled.clear()
                else:
                    ops.append(["touch", rng.choice(m.dirs_in("root"))])
            if rng.random() < 0.3:
                # the watched root disappears while the observer runs, is re-created and watched again
                pos = rng.randrange(len(ops) + 1)
                ops[pos:pos] = [["rmroot"], ["mkroot"]] + ([["schedule", "root", True]] if rng.random() < 0.7 else [])
            case["cycle_ops"] = ops
        return case

    def shrink(self, case):
        for cand in drop_each(case["pre"]):
            c = copy.deepcopy(case)
            kept, _ = fm.revalidate([], cand, paced=False)
            c["pre"] = kept
            if c.get("ops"):
                c["ops"], _ = fm.revalidate(c["pre"], c["ops"], paced=False)
            yield c
        for key in ("ops", "cycle_ops"):
            if case.get(key):
                for cand in drop_each(case[key]):
                    c = copy.deepcopy(case)
                    c[key] = cand if key == "cycle_ops" else fm.revalidate(c["pre"], cand, paced=False)[0]
                    yield c
        if case.get("close_after"):
            c = copy.deepcopy(case)
            c["close_after"] = 0
            yield c
        if case.get("consumer"):
            c = copy.deepcopy(case)
            c["consumer"] = False
            yield c
        yield from simpler_sched(case)

    # ------------------------------------------------------------------
    def run_case(self, case, sched_seed, trace=None):
        run = FsRun(case)
        res = {"checks": []}
        fd0 = nfds()

        def lib_alive(sim):
            return sorted(t.name for t in sim.tasks if t.kind == "lib" and t.state != DONE)

        def expect_clean(sim, what):
            fds = run.kshim.open_fds()
            alive = lib_alive(sim)
            if fds or alive:
                res["checks"].append({"what": what, "open_fds": fds, "alive": alive})

        def main():
            import watchdog.events as wev
            import watchdog.observers.api as api

            sim = prims.cur_sim()
            M = run.modules()
            run.apply_pre(case["pre"])
            rootb = run.real("root")
            mode = case["mode"]
            if mode == "protocol":
                self.protocol(run, sim, M, case, res, expect_clean)
            elif mode == "construct":
                self.construct(run, sim, M, case, res, expect_clean)
            else:
                self.cycles(run, sim, M, case, res, expect_clean, lib_alive)
            res["fd_misuse"] = list(run.kshim.violations)
            res["done"] = True

        def finish(sim, verdict):
            v = generic_violations("C12", sim, verdict, res)
            try:
                if res.get("done"):
                    for (op, kind, why) in res["fd_misuse"]:
                        v.append(Violation("fd-misuse", f"C12:{op}-{why}:{kind}", f"{op} on a {kind} descriptor {why}; case mode={case['mode']}"))
                        break
                    for c in res["checks"]:
                        kinds = sorted({k for _, k in c["open_fds"]})
                        names = sorted({n.split("#")[0] for n in c["alive"]})
                        v.append(Violation("leak", f"C12:leak:{c['what']}:fds={','.join(kinds)}:threads={','.join(names)}", f"{c}; case={ {k: case.get(k) for k in ('mode', 'level', 'position', 'faults', 'close_after', 'cycle_ops')} }"))
                        break
                    run.kshim.cleanup()
                    fd1 = nfds()
                    if not v and fd1 != fd0:
                        v.append(Violation("leak", "C12:proc-fd-count-differs-from-virtual-table", f"/proc/self/fd {fd0} -> {fd1} although the virtual table shows no open descriptor"))
            finally:
                run.cleanup()
            return v, {"sample": {k: case.get(k) for k in ("mode", "level", "position", "faults", "close_after", "cycle_ops", "ops")}, "hist_key": key_of({k: v2 for k, v2 in case.items() if k != "sched"}), "nontrivial": bool(case.get("faults"))}

        try:
            return self.simulate(case, sched_seed, trace, run.install, main, finish)
        finally:
            run.cleanup()

    # ------------------------------------------------------------------ (a)
    def protocol(self, run, sim, M, case, res, expect_clean):
        import watchdog.events as wev

        rootb = run.real("root")
        level = case["level"]
        obj = None
        consumer = None
        if level == "buffer":
            obj = M["ib"].InotifyBuffer(rootb, recursive=True)
            if case["consumer"]:
                def consume():
                    while obj.read_event() is not None:
                        pass
                consumer = sim.spawn(consume, "consumer", "actor")
        elif level == "emitter":
            q = M["api"].EventQueue()
            obj = run_emitter_class(run, M)(q, M["api"].ObservedWatch(os.fsdecode(rootb), recursive=True))
            obj.start()
        else:
            obs = run.build()
            obs.schedule(run.handlers[0], os.fsdecode(rootb), recursive=True)
            obs.start()
            obj = obs

        def fsactor():
            for op in case["ops"]:
                run.exec_op(op)
            if case.get("rmroot"):
                run.exec_op(["rmroot"])

        fa = sim.spawn(fsactor, "fsactor", "actor")
        for _ in range(case["close_after"]):
            sim.yield_point("wait")
        other = None
        if case.get("second_closer") and level in ("buffer", "emitter"):
            # the same object is shut down from a second thread at the same time (unschedule() next to the emitter's own stop,
            # two shutdown paths of an application): stop()/close() may be called more than once
            def closer2():
                for _ in range(case["second_closer"] - 1):
                    sim.yield_point("wait2")
                if level == "buffer":
                    obj.close()
                else:
                    obj.stop()

            other = sim.spawn(closer2, "closer2", "actor")
        if level == "buffer":
            obj.close()
        elif level == "emitter":
            obj.stop()
            obj.join()
        else:
            obj.stop()
            obj.join()
        sim.block(lambda: fa.state == DONE, why="join-fsactor")
        if other is not None:
            sim.block(lambda: other.state == DONE, why="join-closer2")
        if consumer is not None:
            sim.block(lambda: consumer.state == DONE, why="join-consumer")
        expect_clean(sim, f"after-close:{level}")

    # ------------------------------------------------------------------ (b)
    def construct(self, run, sim, M, case, res, expect_clean):
        level = case["level"]
        pos = case["position"]
        root = os.fsdecode(run.real("root"))
        if pos == "missing-root":
            root = root + "-missing"
        rootb = os.fsencode(root)
        will_fail = pos != "none"
        fail_excs = (OSError, RuntimeError) if pos.startswith("thread:") else (OSError,)
        if pos.startswith("add") and list(case["faults"]["add_fail"].values())[0] == errno.EACCES:
            will_fail = False  # EACCES is swallowed by design (unreadable directories are skipped)
        raised = None
        obj = None
        alias = bool(case.get("alias")) and pos == "none" and level in ("inotify", "buffer")
        if alias:
            # a directory reachable under two names (a followed link into the tree): the kernel hands out one descriptor for both
            ds = sorted(d for d in run.model.dirs_in("root") if d != "root")
            if ds:
                os.symlink(run.real(ds[0]), run.real("root/zz-alias"))
            else:
                alias = False
        try:
            if level == "inotify":
                obj = M["ic"].Inotify(rootb, recursive=True, follow_symlink=alias)
            elif level == "buffer":
                obj = M["ib"].InotifyBuffer(rootb, recursive=True, follow_symlink=alias)
            elif level == "emitter":
                obj = run_emitter_class(run, M)(M["api"].EventQueue(), M["api"].ObservedWatch(root, recursive=True))
                obj.start()
            elif level == "schedule":
                obs = run.build()
                obs.start()
                obj = obs
                obs.schedule(run.handlers[0], root, recursive=True)
            elif level == "start":
                obs = run.build()
                obj = obs
                obs.schedule(run.handlers[0], root, recursive=True)
                obs.start()
        except fail_excs as e:
            raised = e
            sim.rec("raised", type(e).__name__, getattr(e, "errno", None))
        if will_fail and raised is None:
            res["checks"].append({"what": f"failure-swallowed:{level}:{pos}", "open_fds": [], "alive": []})
        if not will_fail and raised is not None:
            raise AssertionError(f"unexpected failure {raised!r}")
        if raised is not None:
            if level in ("inotify", "buffer", "emitter"):
                expect_clean(sim, f"failed-construct:{level}:{'missing-root' if pos == 'missing-root' else pos.rstrip('0123456789')}")
            elif level == "schedule":
                # the observer itself keeps running: only its own thread, no descriptor
                fds = run.kshim.open_fds()
                alive = [t.name for t in sim.tasks if t.kind == "lib" and t.state != DONE and not t.name.startswith("BaseObserver")]
                if fds or alive:
                    res["checks"].append({"what": f"failed-schedule:{'missing-root' if pos == 'missing-root' else pos.rstrip('0123456789')}", "open_fds": fds, "alive": alive})
            else:
                expect_clean(sim, f"failed-start:{'missing-root' if pos == 'missing-root' else pos.rstrip('0123456789')}")
        # orderly release of whatever was built
        if level == "inotify" and obj is not None and raised is None:
            obj.close()  # nobody is reading: close() releases the descriptors itself
        elif level == "buffer" and raised is None:
            obj.close()
        elif level == "emitter" and raised is None:
            obj.stop()
            obj.join()
        elif level in ("schedule", "start") and obj is not None:
            obj.stop()
            if obj.is_alive():
                obj.join()
        expect_clean(sim, f"after-release:{level}")

    # ------------------------------------------------------------------ (c)
    def cycles(self, run, sim, M, case, res, expect_clean, lib_alive):
        obs = run.build()
        started = False
        n_emitters = 0
        watches = {}
        loose = [False]
        for op in case["cycle_ops"]:
            k = op[0]
            try:
                if k == "schedule":
                    path = os.fsdecode(run.real(op[1])) if op[1] != "missing" else os.fsdecode(run.real("root")) + "-missing"
                    w = obs.schedule(run.handlers[0], path, recursive=op[2])
                    watches[(op[1], op[2])] = w
                elif k == "unschedule":
                    w = watches.pop((op[1], op[2]), None)
                    if w is not None:
                        obs.unschedule(w)
                elif k == "start":
                    obs.start()
                    started = True
                elif k == "unschedule_all":
                    obs.unschedule_all()
                    watches.clear()
                elif k == "stopjoin":
                    obs.stop()
                    obs.join()
                    expect_clean(sim, "after-stop-join")
                    obs = run.build()
                    started = False
                    watches.clear()
                elif k == "touch":
                    sim.yield_point("op")
                    if os.path.isdir(run.real(op[1])):
                        with open(run.real(op[1] + "/t"), "w"):
                            pass
                        os.unlink(run.real(op[1] + "/t"))
                elif k == "rmroot":
                    import shutil

                    sim.yield_point("op")
                    shutil.rmtree(run.real("root"))
                    sim.wait_quiescent()
                    # every watch lies at or below the root: each emitter saw its own directory go, and its own shutdown
                    # must have released everything without waiting for unschedule()/stop()
                    fds = run.kshim.open_fds()
                    helpers = [n for n in lib_alive(sim) if not n.startswith("BaseObserver")]
                    if started and not loose[0] and (fds or helpers):
                        res["checks"].append({"what": "cycle-invariant-after-rmroot", "open_fds": fds, "alive": helpers, "expected_running_emitters": 0})
                        break
                    loose[0] = True  # which registered watches still have a live emitter is not tracked from here on: only the final state is judged
                elif k == "mkroot":
                    sim.yield_point("op")
                    for d in sorted(p for p, (kind, _) in run.model.t.items() if kind == "d" and fm.is_under(p, "root")):
                        os.makedirs(run.real(d), exist_ok=True)
            except OSError as e:
                sim.rec("raised", k, e.errno)
                if k == "start":
                    started = False
            except KeyError:
                pass
            # invariant after every call: 3 descriptors and 2 helper threads per running emitter
            running = len(watches) if started else 0
            fds = run.kshim.open_fds()
            helpers = [n for n in lib_alive(sim) if not n.startswith("BaseObserver")]
            if not loose[0] and (len(fds) != 3 * running or len(helpers) != 2 * running):
                res["checks"].append({"what": f"cycle-invariant-after-{k}", "open_fds": fds, "alive": helpers, "expected_running_emitters": running})
                break
        obs.stop()
        if started:
            obs.join()
        expect_clean(sim, "after-final-stop")


def run_emitter_class(run, M):
    base = M["ino"].InotifyEmitter
    n = [0]

    class Em(base):
        def __init__(self, *a, **kw):
            n[0] += 1
            self._idx = n[0]
            super().__init__(*a, **kw)

        def __hash__(self):
            return self._idx

        def __eq__(self, other):
            return self is other

    return Em
