"""C08 - a rename arrives as one paired move; no native event is lost or duplicated (DESIGN.md 4/C08).

Scripted kernel -> real Inotify.read_events (parser, move bookkeeping) -> real InotifyBuffer -> real DelayedQueue."""
from __future__ import annotations

import copy
import random
import select as _select
import struct

from . import prims
from .core import DONE, TICKS
from .kshim import Proxy
from .scenario import Scenario, Violation, draw_sched, drop_each, key_of, simpler_sched

IN_MODIFY, IN_MOVED_FROM, IN_MOVED_TO, IN_CREATE, IN_DELETE, IN_IGNORED = 0x2, 0x40, 0x80, 0x100, 0x200, 0x8000
KINDS = {"C": IN_CREATE, "M": IN_MODIFY, "D": IN_DELETE, "F": IN_MOVED_FROM, "T": IN_MOVED_TO}


class ScriptedKernel:
    """Serves the inotify seams from a script of (gap ticks, [records]) batches on the virtual clock."""

    def __init__(self, sim, batches, pads):
        self.sim = sim
        self.batches = batches  # list of [gap_ticks, [ [kind, cookie, idx], ... ]]
        self.pads = pads
        self.next_batch = 0
        self.due = None  # absolute tick at which the next batch becomes readable
        self.fds = {}
        self.nfd = 1000
        self.kill = False
        self.read_times = {}  # record idx -> tick at which its batch was returned by read()
        self.misuse = []
        self.t0 = None

    def _arm(self):
        if self.next_batch < len(self.batches) and self.due is None:
            base = self.sim.now if self.t0 is None else self.t0
            self.due = base + self.batches[self.next_batch][0]

    def inotify_init(self):
        self.sim.yield_point("k:init")
        self.nfd += 1
        self.fds[self.nfd] = "inotify"
        self.ifd = self.nfd
        return self.nfd

    def inotify_add_watch(self, fd, path, mask):
        self.sim.yield_point("k:add")
        return 1

    def inotify_rm_watch(self, fd, wd):
        self.sim.yield_point("k:rm")
        return 0

    def pipe(self):
        self.nfd += 2
        self.fds[self.nfd - 1] = "pipe_r"
        self.fds[self.nfd] = "pipe_w"
        return self.nfd - 1, self.nfd

    def _ready(self):
        self._arm()
        return self.kill or (self.due is not None and self.sim.now >= self.due)

    def poll_obj(self):
        k = self

        class P:
            def register(self, fd, mask):
                pass

            def poll(self, timeout=None):
                s = k.sim
                s.yield_point("k:poll")
                k._arm()
                if not k._ready():
                    dl = None if k.due is None else max(0, k.due - s.now) / TICKS
                    s.block(lambda: k.kill, dl, why="poll")
                out = []
                if k.due is not None and s.now >= k.due:
                    out.append((k.ifd, _select.POLLIN))
                if k.kill:
                    out.append((k.ifd - 0 + 1, _select.POLLIN))
                return out

        return P()

    def read(self, fd, n):
        s = self.sim
        s.yield_point("k:read")
        if self.fds.get(fd) != "inotify":
            self.misuse.append(("read", fd))
            raise OSError(9, "EBADF")
        gap, recs = self.batches[self.next_batch]
        buf = b""
        for kind, cookie, idx in recs:
            name = f"n{idx}".encode()
            pad = self.pads[idx % len(self.pads)]
            nb = name + b"\0" * pad
            buf += struct.pack("iIII", 1, KINDS[kind], cookie, len(nb)) + nb
            self.read_times[idx] = s.now
        self.next_batch += 1
        self.t0 = s.now
        self.due = None
        s.rec("k:read-batch", self.next_batch - 1, s.now)
        return buf

    def write(self, fd, b):
        self.sim.yield_point("k:write")
        self.kill = True
        return len(b)

    def close(self, fd):
        self.sim.yield_point("k:close")
        if fd not in self.fds:
            self.misuse.append(("close", fd))
            raise OSError(9, "EBADF")
        del self.fds[fd]


class C08(Scenario):
    prop = "C08"
    level = "exploration"
    design_ref = "DESIGN.md 2.3 (scripted kernel), 4/C08"
    rule = ("case = native record sequence over {CREATE, MODIFY, DELETE, MOVED_FROM(cookie), MOVED_TO(cookie)} with and without partners, cut into read batches at seeded positions, inter-batch gaps "
            "from {0, d/2, d-1tick, d, d+1tick, 2d} (d = pairing delay in {1/8, 1/2, 2} s), name padding 1..16 NULs, consumer sometimes stalled, scheduler configuration; distinct = distinct "
            "(sequence+cuts+gaps digest, interleaving digest); non-trivial = a pre-emption was taken or a cross-batch pairing / expiry boundary probe was hit")
    level_text = ("Seeded search over native sequences x batch cuts x gaps around the pairing delay x interleavings of reader, consumer and closer; oracle over the recorded history: every record "
                  "delivered exactly once (alone or in exactly one pair), kernel order with a pair at either half's position, MUST pair when the second half was read less than d after the first, "
                  "an unmatched first half is delivered alone no earlier than d after it was read, never both alone and in a pair.")
    level_note = "the scripted kernel stands for the OS; Inotify._parse_event_buffer, move bookkeeping, InotifyBuffer and DelayedQueue are the real code"
    components = {"real": ["watchdog.observers.inotify_c.Inotify (read_events, _parse_event_buffer)", "watchdog.observers.inotify_buffer.InotifyBuffer", "watchdog.utils.delayed_queue.DelayedQueue"],
                  "simulated": ["scripted inotify kernel (encodes struct inotify_event records)", "virtual clock", "thread scheduling with statement-level pre-emption"]}
    assumptions = ["records of one watch only (wd 1); IN_IGNORED/overflow records are not part of the input alphabet", "GIL atomicity of deque operations"]
    budget = {"quick": 20, "thorough": 420, "minimise": 60}

    def gen_case(self, seed, tier, idx):
        rng = random.Random(f"{seed}:ops")
        cfg = random.Random(f"{seed}:cfg")
        delay = cfg.choice([0.5, 0.5, 0.125, 2.0])
        d = int(delay * TICKS)
        n = rng.randrange(1, 9)
        recs = []
        cookie = 100
        pending = []
        for i in range(n):
            r = rng.random()
            if r < 0.3:
                cookie += 1
                recs.append(["F", cookie])
                if rng.random() < 0.75:
                    pending.append(cookie)
            elif r < 0.55 and pending:
                c = pending.pop(rng.randrange(len(pending)))
                recs.append(["T", c])
            elif r < 0.62:
                cookie += 1
                recs.append(["T", cookie])  # moved in from outside: no partner
            else:
                recs.append([rng.choice("CMD"), 0])
        for c in pending:
            if rng.random() < 0.7:
                recs.append(["T", c])
        recs = [[k, c, i] for i, (k, c) in enumerate(recs)]
        gaps = [0, 0, 1, d // 2, d - 1, d, d + 1, 2 * d]
        batches = []
        cur = []
        for r in recs:
            cur.append(r)
            if rng.random() < 0.45:
                batches.append([rng.choice(gaps), cur])
                cur = []
        if cur:
            batches.append([rng.choice(gaps), cur])
        sched = draw_sched(cfg, line=True, pct_k=600, step_cap=150_000, horizon=3600)
        frng = random.Random(f"{seed}:faults")
        if d and frng.random() < 0.2:
            # wall-clock steps while a first half waits out the pairing delay ("the delay" is real elapsed time)
            sched["clock_jumps"] = [[frng.randrange(0, 6 * d + 1), frng.choice([1, -1]) * frng.choice([d // 2, d, 3 * d])] for _ in range(frng.choice([1, 1, 2]))]
        return {"delay": delay, "batches": batches, "pads": [rng.randrange(1, 17) for _ in range(5)], "consumer_stall": rng.choice([0, 0, 0, d // 2, d, 3 * d]),
                "stall_after": rng.randrange(0, 4), "sched": sched}

    def shrink(self, case):
        flat = [(bi, ri) for bi, b in enumerate(case["batches"]) for ri in range(len(b[1]))]
        for bi, ri in reversed(flat):
            c = copy.deepcopy(case)
            del c["batches"][bi][1][ri]
            if not c["batches"][bi][1]:
                del c["batches"][bi]
            if c["batches"]:
                yield c
        for bi in range(len(case["batches"]) - 1):
            c = copy.deepcopy(case)  # merge two batches
            c["batches"][bi][1] += c["batches"][bi + 1][1]
            del c["batches"][bi + 1]
            yield c
        for bi, b in enumerate(case["batches"]):
            if b[0]:
                c = copy.deepcopy(case)
                c["batches"][bi][0] = 0
                yield c
        if case["consumer_stall"]:
            c = copy.deepcopy(case)
            c["consumer_stall"] = 0
            yield c
        yield from simpler_sched(case)

    def run_case(self, case, sched_seed, trace=None):
        import os as _os

        import watchdog.observers.inotify_buffer as ib
        import watchdog.observers.inotify_c as ic
        import watchdog.utils.delayed_queue as dq

        hist = {"delivered": [], "raised": []}
        holder = {}
        dticks = int(case["delay"] * TICKS)

        def install(p, sim):
            prims.install_base(p, modules_threading=[ic, dq], modules_time=[dq])
            k = ScriptedKernel(sim, case["batches"], case["pads"])
            holder["k"] = k
            p.set(ic, "inotify_init", k.inotify_init)
            p.set(ic, "inotify_add_watch", k.inotify_add_watch)
            p.set(ic, "inotify_rm_watch", k.inotify_rm_watch)
            p.set(ic, "os", Proxy(_os, read=k.read, write=k.write, close=k.close, pipe=k.pipe))
            p.set(ic, "select", Proxy(_select, poll=k.poll_obj))
            p.set(ib.InotifyBuffer, "delay", case["delay"])

        def main():
            sim = prims.cur_sim()
            buf = ib.InotifyBuffer(b"/scripted/root-does-not-exist", recursive=False)

            def consumer():
                n = 0
                while True:
                    e = buf.read_event()
                    if e is None:
                        return
                    t = sim.now
                    if isinstance(e, tuple):
                        item = ("pair", int(e[0].name[1:]), int(e[1].name[1:]))
                    else:
                        item = ("one", int(e.name[1:]))
                    hist["delivered"].append((item, t, sim.next_seq()))
                    sim.rec("deliver", item, t)
                    n += 1
                    if case["consumer_stall"] and n == case["stall_after"] + 1:
                        sim.sleep(case["consumer_stall"] / TICKS)

            cons = sim.spawn(consumer, "consumer", "actor")
            k = holder["k"]
            sim.block(lambda: k.next_batch >= len(k.batches), why="all-batches-read")
            sim.wait_quiescent()
            buf.close()
            sim.block(lambda: cons.state == DONE, why="join-consumer")
            hist["alive"] = [t.name for t in sim.tasks if t.kind == "lib" and t.state != DONE]

        def finish(sim, verdict):
            v = []
            if verdict is not None:
                kind, info = verdict
                v.append(Violation(kind, f"C08:{kind}", str(info)))
                return v, {}
            for u in sim.uncaught:
                if u["kind"] != "actor":
                    v.append(Violation("uncaught", f"C08:uncaught:{u['task'].split('#')[0]}:{u['exc']}", str(u)))
            if v:
                return v, {}
            k = holder["k"]
            v += self.oracle(case, hist, k.read_times, dticks, sim)
            return v, {"sample": {"batches": case["batches"], "delivered": [(d[0], d[1]) for d in hist["delivered"]]}, "hist_key": key_of([case["batches"], case["delay"], case["consumer_stall"]])}

        return self.simulate(case, sched_seed, trace, install, main, finish)

    @staticmethod
    def oracle(case, hist, read_times, d, sim):
        v = []
        recs = {r[2]: r for b in case["batches"] for r in b[1]}
        order = [r[2] for b in case["batches"] for r in b[1]]
        pos = {idx: i for i, idx in enumerate(order)}
        count = {i: 0 for i in recs}
        alone, paired = set(), set()
        for item, t, seq in hist["delivered"]:
            ids = item[1:]
            for i in ids:
                if i not in recs:
                    v.append(Violation("invented", "C08:invented-record", f"{item}"))
                    return v
                count[i] += 1
            (alone if item[0] == "one" else paired).update(ids)
            if item[0] == "pair":
                f, t_ = recs[item[1]], recs[item[2]]
                if f[0] != "F" or t_[0] != "T" or f[1] != t_[1]:
                    v.append(Violation("pair", "C08:wrong-pair", f"{item}: {f} {t_}"))
        both = alone & paired
        if both:
            v.append(Violation("dup", "C08:delivered-alone-and-in-a-pair", f"records {sorted(both)}; delivered={[x[0] for x in hist['delivered']]}"))
        lost = [i for i, n in count.items() if n == 0]
        dup = [i for i, n in count.items() if n > 1 and i not in both]
        if lost:
            v.append(Violation("lost", f"C08:lost-record:{recs[lost[0]][0]}", f"records {lost} never delivered; delivered={[x[0] for x in hist['delivered']]} batches={case['batches']}"))
        if dup:
            v.append(Violation("dup", "C08:duplicated-record", f"records {dup}"))
        # order: strictly increasing choice of kernel positions (a pair may sit at either half's position)
        last = -1
        for item, t, seq in hist["delivered"]:
            cands = sorted(pos[i] for i in item[1:] if pos[i] > last)
            if not cands:
                v.append(Violation("order", "C08:out-of-kernel-order", f"{item} delivered after position {last}; delivered={[x[0] for x in hist['delivered']]}"))
                break
            last = cands[0]
        # pairing obligations and expiry
        by_cookie = {}
        for i in order:
            k, c, _ = recs[i]
            if k in "FT" and c:
                by_cookie.setdefault(c, {})[k] = i
        for c, ft in by_cookie.items():
            if "F" in ft and "T" in ft and pos[ft["F"]] < pos[ft["T"]]:
                tf, tt = read_times.get(ft["F"]), read_times.get(ft["T"])
                if tf is None or tt is None:
                    continue
                if tt - tf < d:
                    if ft["F"] in alone or ft["T"] in alone:
                        v.append(Violation("pair", "C08:not-paired-within-delay", f"halves {ft} read at {tf},{tt} (< delay {d}) were delivered separately; delivered={[x[0] for x in hist['delivered']]}"))
                    elif tt != tf:
                        sim.probe("cross_batch_pairing")
                elif tt - tf == d:
                    sim.probe("expiry_boundary")
        # only unmatched first halves are delayed: when no MOVED_FROM precedes a record in the kernel sequence and the
        # consumer never pauses, the record is handed over at the very tick its batch was read
        if not case["consumer_stall"]:
            first_from = min([pos[i] for i in order if recs[i][0] == "F"], default=len(order))
            for item, t, seq in hist["delivered"]:
                idxs = item[1:]
                if all(pos[i] < first_from for i in idxs):
                    tr = max(read_times[i] for i in idxs)
                    if t != tr:
                        v.append(Violation("delayed", "C08:undelayed-record-delivered-late", f"{item} read at {tr} delivered at {t} although nothing delayed was queued before it"))
                        break
        for item, t, seq in hist["delivered"]:
            if item[0] == "one" and recs[item[1]][0] == "F":
                tf = read_times[item[1]]
                if t < tf + d:
                    v.append(Violation("early", "C08:unmatched-first-half-delivered-early", f"{item} read at {tf} delivered at {t} < +{d}"))
        return v
