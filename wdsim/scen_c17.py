"""C17 - DelayedQueue: FIFO, never early, nothing lost or duplicated, close() unblocks."""
from __future__ import annotations

import copy
import random

from . import prims
from .core import TICKS
from .scenario import Scenario, Violation, draw_sched, drop_each, simpler_sched

DELAYS = [0.5, 0.5, 0.125, 2.0]


def gaps_for(delay_ticks):
    d = delay_ticks
    return [0, 0, 0, 1, d // 2, d - 1, d, d + 1, 2 * d]


class El:
    """Queue element: unique identity (uid), equality by group - distinct elements may compare equal."""

    __slots__ = ("uid", "grp")

    def __init__(self, uid, grp):
        self.uid = uid
        self.grp = grp

    def __eq__(self, other):
        return isinstance(other, El) and other.grp == self.grp

    def __hash__(self):
        return hash(self.grp)

    def __getitem__(self, i):  # e[1] is the unique id (history records use it)
        return ("e", self.uid)[i]


class C17(Scenario):
    prop = "C17"
    level = "exploration"
    rule = (
        "case = (delay, producer program of put(delayed?)/sleep(gap) with elements that are distinct objects but may compare equal, remover program of remove(target)/sleep, "
        "optional closer, in 30% of the closer-less runs a second consumer blocked on the empty queue before the final close(), in 25% of the runs wall-clock steps of +-0.5/1/3 delays, "
        "scheduler configuration) drawn from the run seed; gaps drawn around the delay boundary "
        "on the tick clock; distinct = distinct (operation-history digest, interleaving digest) pairs; non-trivial = at "
        "least one non-default scheduling decision (pre-emption) was taken in the run"
    )
    components = {
        "real": ["watchdog.utils.delayed_queue.DelayedQueue"],
        "simulated": ["threading.Lock/Condition (sim primitives)", "time.monotonic/time.time/time.sleep (virtual clock; the wall clock may be stepped)", "thread scheduling (seeded; pre-emption before every statement, instrumented at import)"],
    }
    assumptions = [
        "deque/dict operations implemented in C are atomic under the GIL and are treated as atomic",
        "pre-emption granularity: statement (and operand of and/or) in delayed_queue.py",
        "insertion time of an element is bounded below by the virtual time at which put() was invoked",
    ]
    budget = {"quick": 20, "thorough": 300, "minimise": 60}
    design_ref = "DESIGN.md 3.3, 4/C17"
    level_text = ("Seeded search over producer/remover/closer programs x virtual-time gaps around the delay boundary x thread interleavings "
                  "(sticky/random/PCT(d<=3) with statement-level pre-emption inside delayed_queue.py) of the real DelayedQueue; oracle over the recorded "
                  "history: FIFO, exactly-once (get xor remove), remove() never empty-handed while a matching delayed element certainly is queued, never early, exact hand-out time when nothing is removed, nothing lost at drain, close() unblocks "
                  "(scheduler deadlock verdict) and a later get() returns the end marker at once. Sampling, not proof; PCT gives a per-run hit probability for depth<=3 races.")
    level_note = "trusts: CPython GIL atomicity of deque operations; sim primitives mirror threading.Lock/Condition semantics (FIFO wake-up, no spurious wake-ups)"
    technique = "deterministic simulation: seeded PCT/random scheduler over real threads, virtual clock, history oracle, delta-debugged replay"

    def _mods(self):
        import watchdog.utils.delayed_queue as dq

        return dq

    def gen_case(self, seed, tier, idx):
        rng = random.Random(f"{seed}:ops")
        cfg = random.Random(f"{seed}:cfg")
        delay = cfg.choice(DELAYS)
        dt = int(delay * TICKS)
        gaps = gaps_for(dt)
        n = rng.randrange(1, 7)
        prod = []
        for i in range(n):
            if rng.random() < 0.5:
                prod.append(["sleep", rng.choice(gaps)])
            prod.append(["put", i, rng.random() < 0.55])
        rem = []
        for _ in range(rng.choice([0, 0, 1, 1, 2, 3])):
            rem.append(["sleep", rng.choice(gaps)])
            rem.append(["remove", rng.choice(["id", "id", "delayed", "any"]), rng.randrange(n)])
        closer = None
        if rng.random() < 0.35:
            closer = rng.choice(gaps + [3 * dt])
        sched = draw_sched(cfg, line=True, pct_k=250, step_cap=60_000, horizon=600)
        sched["instr"] = cfg.random() < 0.5
        frng = random.Random(f"{seed}:faults")
        if dt and frng.random() < 0.25:
            # the wall clock is stepped (NTP, suspend/resume, date set by hand) while elements wait: "elapsed since insertion"
            # is a statement about real elapsed time, which the virtual monotonic clock stands for
            sched["clock_jumps"] = [[frng.randrange(0, 4 * dt + 1), frng.choice([1, -1]) * frng.choice([dt // 2, dt, 3 * dt])] for _ in range(frng.choice([1, 1, 2]))]
        # some runs use elements that compare equal although they are distinct objects
        groups = {str(i): 0 for i in range(n) if rng.random() < 0.6} if rng.random() < 0.4 else {}
        return {"delay": delay, "producer": prod, "remover": rem, "closer": closer, "sched": sched, "late_get": rng.random() < 0.5, "groups": groups,
                "second_getter": closer is None and random.Random(f"{seed}:second").random() < 0.3}

    def shrink(self, case):
        for key in ("producer", "remover"):
            for cand in drop_each(case[key]):
                c = copy.deepcopy(case)
                c[key] = cand
                yield c
        if case["closer"] is not None:
            c = copy.deepcopy(case)
            c["closer"] = None
            yield c
        for key in ("producer", "remover"):
            for i, op in enumerate(case[key]):
                if op[0] == "sleep" and op[1] != 0:
                    c = copy.deepcopy(case)
                    c[key][i][1] = 0
                    yield c
                if op[0] == "put" and op[2]:
                    c = copy.deepcopy(case)
                    c[key][i][2] = False
                    yield c
        yield from simpler_sched(case)

    def run_case(self, case, sched_seed, trace=None):
        dq = self._mods()
        DQ = dq.DelayedQueue
        prims.enable_monitoring([dq], instr_funcs=[DQ.get, DQ.close, DQ.remove, DQ.put], instr_on=bool(case["sched"].get("instr")))
        delay = case["delay"]
        dticks = int(delay * TICKS)
        hist = {"puts": {}, "gets": [], "removes": [], "close": None, "get_calls": [], "raised": []}
        state = {}

        def call(name, fn, *a, **kw):
            """Library call made by an actor: an exception is a finding about the library, not a harness error."""
            try:
                return fn(*a, **kw)
            except Exception as e:  # noqa: BLE001
                hist["raised"].append((name, type(e).__name__, str(e)[:200]))
                return None

        def install(p, sim):
            prims.install_base(p, modules_threading=[dq], modules_time=[dq])

        callx = call

        def main():
            sim = prims.cur_sim()
            q = DQ(delay)
            elems = {}

            def producer():
                for op in case["producer"]:
                    if op[0] == "sleep":
                        sim.sleep(op[1] / TICKS)
                    else:
                        e = El(op[1], case.get("groups", {}).get(str(op[1]), op[1]))
                        elems[op[1]] = e
                        rec = {"id": op[1], "delayed": op[2], "inv_seq": sim.next_seq(), "inv_t": sim.now}
                        hist["puts"][op[1]] = rec
                        sim.rec("put", op[1], op[2], sim.now)
                        call('put', q.put, e, delay=op[2])
                        rec["ret_seq"] = sim.next_seq()
                        rec["ret_t"] = sim.now

            def consumer():
                while True:
                    call = {"inv_seq": sim.next_seq(), "inv_t": sim.now}
                    hist["get_calls"].append(call)
                    r = callx('get', q.get)
                    call["ret_seq"] = sim.next_seq()
                    call["ret_t"] = sim.now
                    call["res"] = None if r is None else r[1]
                    sim.rec("get", call["res"], sim.now)
                    if r is None:
                        return
                    hist["gets"].append(call)

            def remover():
                for op in case["remover"]:
                    if op[0] == "sleep":
                        sim.sleep(op[1] / TICKS)
                    else:
                        kind, target = op[1], op[2]
                        if kind == "id":
                            pred = lambda e, t=target: e[1] == t  # noqa: E731
                        elif kind == "delayed":
                            pred = lambda e: hist["puts"][e[1]]["delayed"]  # noqa: E731
                        else:
                            pred = lambda e: True  # noqa: E731
                        inv = sim.next_seq()
                        inv_t = sim.now
                        r = call('remove', q.remove, pred)
                        rec = {"inv_seq": inv, "inv_t": inv_t, "ret_seq": sim.next_seq(), "ret_t": sim.now, "res": None if r is None else r[1], "kind": kind, "target": target}
                        hist["removes"].append(rec)
                        sim.rec("remove", kind, target, rec["res"], sim.now)

            def closer():
                sim.sleep(case["closer"] / TICKS)
                c = {"inv_seq": sim.next_seq(), "inv_t": sim.now}
                call('close', q.close)
                c["ret_seq"] = sim.next_seq()
                c["ret_t"] = sim.now
                hist["close"] = c
                sim.rec("close", sim.now)

            tasks = [sim.spawn(producer, "producer", "actor"), sim.spawn(remover, "remover", "actor")]
            cons = sim.spawn(consumer, "consumer", "actor")
            if case["closer"] is not None:
                tasks.append(sim.spawn(closer, "closer", "actor"))
            for t in tasks:
                sim.block(lambda t=t: t.state == "D", why="join-actor")
            # drain: consumer idle on an empty queue (or finished after close)
            sim.wait_quiescent()
            state["drained_t"] = sim.now
            state["consumer_done_before_final_close"] = cons.state == "D"
            second = None
            if hist["close"] is None and case.get("second_getter"):
                # a second consumer blocks on the (now empty) queue next to the first one: close() must release both
                def getter2():
                    r = callx('get', q.get)
                    state["second_get"] = None if r is None else r[1]
                    sim.rec("get2", state["second_get"], sim.now)

                second = sim.spawn(getter2, "consumer2", "actor")
                sim.wait_quiescent()
            if hist["close"] is None:
                c = {"inv_seq": sim.next_seq(), "inv_t": sim.now, "final": True}
                call('close', q.close)
                c["ret_seq"] = sim.next_seq()
                c["ret_t"] = sim.now
                hist["final_close"] = c
            if case.get("late_get"):
                # a get() issued after close() returned must return the end marker at once
                t0 = sim.now
                r = call('get', q.get)
                state["late_get"] = (None if r is None else r[1], sim.now - t0)
            sim.block(lambda: cons.state == "D", why="join-consumer")
            if second is not None:
                sim.block(lambda: second.state == "D", why="join-consumer2")

        def finish(sim, verdict):
            v = []
            if verdict is not None:
                kind, info = verdict
                if kind == "deadlock":
                    blocked = sorted(f"{n}:{w}" for n, k, w in info)
                    v.append(Violation("deadlock", "C17:deadlock:" + ",".join(x.split("#")[0] for x in blocked), f"no task can run: {info}; close={hist['close']}"))
                else:
                    v.append(Violation("hang", f"C17:{kind}", f"{kind}: {info}"))
                return v, {}
            for u in sim.uncaught:
                if u["kind"] != "actor":
                    v.append(Violation("uncaught", f"C17:uncaught:{u['exc']}", str(u)))
            for name, exc, msg in hist["raised"]:
                v.append(Violation("raised", f"C17:{name}-raised:{exc}", f"{name}() raised {exc}: {msg}"))
            v.extend(self.oracle(case, hist, state, dticks))
            return v, {"sample": {"gets": [(g["res"], g["ret_t"]) for g in hist["gets"]], "removes": [(r["res"], r["ret_t"]) for r in hist["removes"]], "closed_at": (hist["close"] or {}).get("ret_t")}}

        return self.simulate(case, sched_seed, trace, install, main, finish)

    # ------------------------------------------------------------------ oracle
    @staticmethod
    def oracle(case, hist, state, dticks):
        v = []
        puts = hist["puts"]
        got = [g["res"] for g in hist["gets"]]
        removed = [r["res"] for r in hist["removes"] if r["res"] is not None]
        # exactly once
        handed = got + removed
        dup = sorted({x for x in handed if handed.count(x) > 1})
        if dup:
            both = [x for x in dup if x in got and x in removed]
            sig = "C17:dup:get+remove" if both else "C17:dup:get+get"
            v.append(Violation("duplicate", sig, f"elements handed out more than once: {dup}; gets={got} removes={removed}"))
        # remove() ignores the delay and scans the whole queue: it may not come back empty-handed while a matching delayed
        # element certainly sits in the queue (put returned before the call; not yet due, so no get() can have taken it;
        # taken by no other remove that began before this one ended)
        for r in hist["removes"]:
            if r["res"] is not None or "target" not in r:
                continue
            for e, p in puts.items():
                if not p["delayed"] or "ret_seq" not in p or p["ret_seq"] >= r["inv_seq"] or r["ret_t"] >= p["inv_t"] + dticks:
                    continue
                if r["kind"] == "id" and e != r["target"]:
                    continue
                if any(o["res"] == e and o["inv_seq"] < r["ret_seq"] for o in hist["removes"]):
                    continue
                v.append(Violation("remove", "C17:remove-missed-queued-element", f"remove({r['kind']}, {r['target']}) at {r['inv_t']}..{r['ret_t']} returned None although delayed element {e} (put at {p['inv_t']}, due {p['inv_t'] + dticks}) was queued; gets={got} removes={removed}"))
                break
        unknown = [x for x in handed if x not in puts]
        if unknown:
            v.append(Violation("invented", "C17:invented", f"{unknown}"))
        # FIFO among gets (single producer: put order == id order of the program)
        order = [op[1] for op in case["producer"] if op[0] == "put"]
        pos = {e: i for i, e in enumerate(order)}
        seq = [pos[x] for x in got if x in pos]
        if any(a > b for a, b in zip(seq, seq[1:])):
            v.append(Violation("fifo", "C17:fifo", f"get order {got} is not put order {order}"))
        # never early
        for g in hist["gets"]:
            p = puts.get(g["res"])
            if p and p["delayed"] and g["ret_t"] < p["inv_t"] + dticks:
                v.append(Violation("early", "C17:early", f"delayed element {g['res']} put at t>={p['inv_t']} returned at {g['ret_t']} < +{dticks}"))
        closed = hist["close"]
        if closed is None:
            # nothing lost: everything put was handed out by the final drain
            lost = [e for e in order if e in puts and "ret_seq" in puts[e] and e not in handed]
            if lost:
                v.append(Violation("lost", "C17:lost", f"elements never handed out: {lost}; gets={got} removes={removed}"))
            # timing: without any successful removal the consumer's hand-out times are exactly determined
            if not removed and not dup:
                t_prev = 0
                for e in order:
                    p = puts.get(e)
                    g = next((g for g in hist["gets"] if g["res"] == e), None)
                    if p is None or g is None or "ret_t" not in p:
                        break
                    lo = max(t_prev, p["inv_t"] + (dticks if p["delayed"] else 0))
                    hi = max(t_prev, p["ret_t"] + (dticks if p["delayed"] else 0))
                    if not (lo <= g["ret_t"] <= hi):
                        cls = "late" if g["ret_t"] > hi else "early"
                        v.append(Violation(cls, f"C17:{cls}:{'delayed' if p['delayed'] else 'undelayed'}", f"element {e} (delayed={p['delayed']}) handed out at {g['ret_t']}, expected within [{lo},{hi}]"))
                        break
                    t_prev = g["ret_t"]
        else:
            # a get() invoked after close() returned must return the end marker
            for c in hist["get_calls"]:
                if c["inv_seq"] > closed["ret_seq"] and c.get("res") is not None:
                    v.append(Violation("after-close", "C17:get-after-close-returned-element", f"get invoked at seq {c['inv_seq']} after close returned at {closed['ret_seq']} returned {c['res']}"))
        if "late_get" in state:
            r, dt = state["late_get"]
            if r is not None:
                v.append(Violation("after-close", "C17:late-get-returned-element", f"get() after close() returned {r}"))
            elif dt != 0:
                v.append(Violation("after-close", "C17:late-get-blocked", f"get() after close() took {dt} ticks"))
        return v
