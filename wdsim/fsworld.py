"""FS-world (DESIGN.md 3.1): the real inotify observer over the real kernel on a tmpfs scratch tree, driven by
an actor that performs model-generated operations; oracles: replay, probes, soundness, contract, liveness."""
from __future__ import annotations

import os
import shutil

from . import fsmodel as fm
from . import kshim, prims
from .core import DONE
from .scenario import Violation

_COUNTER = [0]
_NS = {"tried": False, "ok": False}
NS_MOUNT = "/dev/shm/wdsim-ns"


def _enter_private_namespace():
    """Give this process a private mount namespace with its own tmpfs at a FIXED path.

    The scratch tree then has the same absolute path string in every process and for every run.  That matters for
    determinism: the polling emitter iterates sets of full path strings, whose order depends on the string hashes, so a
    path containing a pid or a counter made the order of events inside one poll - and with it the schedule - depend on
    which process ran the case and on how many cases it had run before (found by selftest-determinism)."""
    import ctypes

    try:
        libc = ctypes.CDLL(None, use_errno=True)
        os.makedirs(NS_MOUNT, exist_ok=True)
        os.unshare(os.CLONE_NEWNS)
        ms_rec, ms_private = 16384, 1 << 18
        if libc.mount(None, b"/", None, ms_rec | ms_private, None) != 0:
            return False
        if libc.mount(b"tmpfs", NS_MOUNT.encode(), b"tmpfs", 0, b"size=1g") != 0:
            return False
        return True
    except (OSError, AttributeError, PermissionError):
        return False


def scratch_top():
    from .runner import scratch_base

    if not _NS["tried"]:
        _NS["tried"] = True
        _NS["ok"] = _enter_private_namespace()
    if _NS["ok"]:
        top = NS_MOUNT + "/fs"
        shutil.rmtree(top, ignore_errors=True)
        return top
    _COUNTER[0] += 1
    return os.path.join(scratch_base(), f"fs-{os.getpid()}-{_COUNTER[0]}")


def enc(rel):
    return os.fsencode(rel)


class FsRun:
    def __init__(self, case):
        self.case = case
        self.w = case["watch"]
        self.recursive = self.w.get("recursive", True)
        self.full = self.w.get("full", False)
        self.top = scratch_top()
        self.topb = os.fsencode(self.top)
        self.events = []  # dict(seq, opi, ev, shape, handler)
        self.opi = -1  # index of the operation in progress / last issued
        self.contracts = []  # per executed op: dict(op, R, A, opi, drained)
        self.model = fm.Model()
        self.kshim = None
        self.observer = None
        self.res = {}
        self.chmod_flip = {}
        self.type_errors = []
        self.harness_notes = []
        self.cwd0 = None
        self.phase = "ops"
        self.quiet = True  # nothing in flight: observer just started or a drain just completed
        self.vanished = []
        self.busy = False  # a multi-primitive operation is in progress (the model lags behind the real tree)
        self.ever = {"root"}
        self.backend = self.w.get("backend", "inotify")
        self.poll_interval = float(self.w.get("observer_timeout", 1.0))  # BaseObserver(timeout=...): also the polling interval

    # ------------------------------------------------------------------ paths
    def real(self, rel):
        return self.topb + b"/" + enc(rel)

    def watch_path(self):
        """The spelling of the root handed to schedule()."""
        sp = self.w.get("spelling", "abs")
        kind = self.w.get("root_kind", "str")
        if sp == "rel":
            p = "root"
        elif sp == "reldot":
            p = "./root"
        elif sp == "dot":
            p = self.top + "/./root"
        elif sp == "dslash":
            p = self.top + "//root"
        elif sp == "slash":
            p = self.top + "/root/"
        else:
            p = self.top + "/root"
        if kind == "bytes":
            return os.fsencode(p)
        if kind == "path":
            import pathlib

            return pathlib.Path(p)
        return p

    def norm(self, path):
        """Event path -> model path ('root/..'); '' stays ''; unknown prefix -> '?...'."""
        if path == "" or path == b"":
            return ""
        b = os.fsencode(path)
        wp = self.watch_path()
        rootb = os.fsencode(str(wp) if not isinstance(wp, (str, bytes)) else wp)
        rootb_s = rootb.rstrip(b"/")
        if b.rstrip(b"/") == rootb_s:
            return "root"
        if b.startswith(rootb_s + b"/"):
            rest = b[len(rootb_s):]
            while rest.startswith(b"//"):
                rest = rest[1:]
            return "root" + os.fsdecode(rest)
        return "?" + os.fsdecode(b)

    def shape(self, e):
        return (e.event_type, bool(e.is_directory), self.norm(e.src_path), self.norm(getattr(e, "dest_path", "") or ""), bool(e.is_synthetic))

    # ------------------------------------------------------------------ set-up
    def modules(self):
        import queue as qmod

        import watchdog.events as wev
        import watchdog.observers.api as api
        import watchdog.observers.inotify as ino
        import watchdog.observers.inotify_buffer as ib
        import watchdog.observers.inotify_c as ic
        import watchdog.utils as wu
        import watchdog.utils.bricks as bricks
        import watchdog.utils.delayed_queue as dq

        return dict(qmod=qmod, wev=wev, api=api, ino=ino, ib=ib, ic=ic, wu=wu, bricks=bricks, dq=dq)

    def install(self, p, sim):
        M = self.modules()
        import watchdog.observers.polling as pol

        prims.install_base(p, modules_threading=[M["api"], M["ino"], M["ic"], M["dq"], pol], modules_time=[M["dq"]])
        self.kshim = kshim.install(p, sim, top=self.topb, faults=self.case.get("faults"))
        self.kshim.vanish_hook = self.vanish
        p.set(M["ib"].InotifyBuffer, "delay", self.case.get("delay", 0.5))
        os.makedirs(self.top + "/root")
        os.makedirs(self.top + "/out")
        os.makedirs(self.top + "/linktarget")  # a directory outside the tree that "dirlink" specials point to
        if self.w.get("spelling") in ("rel", "reldot"):
            self.cwd0 = os.getcwd()
            os.chdir(self.top)

    def enable_monitoring(self):
        M = self.modules()
        prims.enable_monitoring([M["api"], M["wu"], M["bricks"], M["ino"], M["ib"], M["ic"], M["dq"]])

    def cleanup(self):
        if self.cwd0 is not None:
            os.chdir(self.cwd0)
        if self.kshim is not None:
            self.kshim.cleanup()
        shutil.rmtree(self.topb, ignore_errors=True)

    def build(self, handler_hook=None):
        M = self.modules()
        sim = prims.cur_sim()
        run = self
        base = M["ino"].InotifyFullEmitter if self.full else M["ino"].InotifyEmitter
        if self.backend == "polling":
            import watchdog.observers.polling as pol

            base = pol.PollingEmitter
        n = [0]

        class Em(base):
            def __init__(self, *a, **kw):
                n[0] += 1
                self._idx = n[0]
                super().__init__(*a, **kw)

            def __hash__(self):
                return self._idx

            def __eq__(self, other):
                return self is other

        class H(M["wev"].FileSystemEventHandler):
            def __init__(self, hid):
                self.hid = hid

            def __hash__(self):
                return self.hid

            def __eq__(self, other):
                return self is other

            def on_any_event(self, e):
                sh = run.shape(e)
                rec = {"seq": sim.next_seq(), "opi": run.opi, "ev": e, "shape": sh, "h": self.hid, "phase": run.phase}
                run.events.append(rec)
                if run.backend != "polling":  # the order inside one poll depends on str hashes of scratch paths
                    sim.rec("ev", self.hid, sh)
                wp = run.watch_path()
                want_bytes = isinstance(wp, bytes)
                if self.hid == 1 and run.w.get("twin_kind"):
                    want_bytes = run.w["twin_kind"] == "bytes"
                for pth in (e.src_path, getattr(e, "dest_path", "")):
                    if pth in ("", b""):
                        continue
                    if isinstance(pth, bytes) != want_bytes or not isinstance(pth, (bytes, str)):
                        run.type_errors.append((sh, type(pth).__name__))
                if handler_hook:
                    handler_hook(self, e)

        self.emitter_class = Em
        emitter_factory = Em
        if self.backend == "polling":
            import functools

            def det_stat(path):
                # tmpfs timestamps have jiffy granularity: whether two changes a few microseconds apart get different
                # mtimes depends on the real clock.  The polling runs on the real tree therefore see a constant mtime
                # (modifications are still detected through the size); time-dependent behaviour is C10's business (VFS).
                st = os.stat(path)
                return os.stat_result(tuple(st[:7]) + (0, 0, 0))

            emitter_factory = functools.partial(Em, stat=det_stat, listdir=os.scandir)
        self.observer = M["api"].BaseObserver(emitter_factory, timeout=self.poll_interval)
        self.H = H
        self.handlers = [H(0)]
        return self.observer

    def vanish(self, path):
        """Vanish fault: called by the shim right before the library's add_watch of `path`: a legal concurrent
        removal of that entry, recorded in the history like any other operation."""
        sim = prims.cur_sim()
        rel = self.norm_real(path)
        m = self.model
        if self.busy or rel is None or rel not in m.t or rel == "root" or not fm.is_under(rel, "root"):
            return
        op = ["rmtree", rel] if m.kind(rel) == "d" else ["unlink", rel]
        R, A = fm.contract(m, op, self.recursive, self.full)
        self.opi += 1
        self.contracts.append({"op": op, "R": R, "A": A, "opi": self.opi, "drained": False, "clean_start": False, "seq0": sim.next_seq(), "fault": True})
        self.quiet = False
        for q in sorted([rel] + m.subtree(rel), key=lambda q: (-q.count("/"), q)):
            if m.kind(q) == "d":
                os.rmdir(self.real(q))
            else:
                os.unlink(self.real(q))
        fm.apply(m, op)
        self.vanished.append(rel)
        sim.fault_fired("vanish")
        sim.rec("vanish", rel)

    def norm_real(self, path):
        b = os.fsencode(path)
        if b.startswith(self.topb + b"/"):
            return os.fsdecode(b[len(self.topb) + 1:]).rstrip("/")
        for odd in (b"/./", b"//"):
            if b.startswith(self.topb + odd):
                return os.fsdecode(b[len(self.topb) + len(odd):]).rstrip("/")
        if self.w.get("spelling") in ("rel", "reldot") and not b.startswith(b"/"):
            r = os.fsdecode(b).rstrip("/")
            return r[2:] if r.startswith("./") else r
        return None

    # ------------------------------------------------------------------ real tree
    def scan(self, rel="root"):
        """Real tree below rel: model path -> kind.  Plain os.scandir, outside the shim."""
        out = {}
        base = self.real(rel)
        if not os.path.isdir(base):
            return None
        stack = [(base, rel)]
        while stack:
            d, r = stack.pop()
            with os.scandir(d) as it:
                ents = sorted(it, key=lambda x: x.name)
            for en in ents:
                rp = r + "/" + os.fsdecode(en.name)
                if en.is_dir(follow_symlinks=False):
                    out[rp] = "d"
                    stack.append((en.path, rp))
                else:
                    out[rp] = "f"
        return out

    # ------------------------------------------------------------------ operations
    def apply_pre(self, ops):
        for op in ops:
            self.exec_op(op, pre=True)

    def exec_op(self, op, pre=False):
        """Perform op with real system calls (a yield point before every primitive) and update the model."""
        sim = prims.cur_sim()
        m = self.model
        k = op[0]
        first = [True]

        def Y():
            # yield point before every primitive; the first one was already taken before the validity check
            if pre:
                return
            if first[0]:
                first[0] = False
                return
            sim.yield_point("op")

        if not pre and k != "drain":
            sim.yield_point("op")
        if k == "drain":
            if self.backend == "polling":
                # periodic timer: no quiescence; one and a half poll intervals, then one more tick so that a poll that
                # coincides with the wake-up has completed (the clock only advances when nobody is runnable)
                sim.sleep(1.5 * self.poll_interval)
                sim.sleep(1.0 / 1024)
            else:
                sim.wait_quiescent()
            m.drain()
            if self.contracts:
                self.contracts[-1]["drained"] = True
            self.quiet = True
            sim.rec("drain")
            return
        if not pre and self.vanished and not fm.valid(m, op, paced=False):
            sim.rec("skip", op)  # its subject vanished through an injected concurrent removal
            return
        if not pre:
            self.opi += 1
            R, A = fm.contract(m, op, self.recursive, self.full)
            # the per-operation contract is judged only when the stream was quiescent when the operation began
            self.contracts.append({"op": op, "R": R, "A": A, "opi": self.opi, "drained": False, "clean_start": self.quiet, "seq0": sim.next_seq()})
            self.quiet = False
            sim.rec("op", op)
        r = self.real
        self.busy = k in ("makedirs", "burst", "rmtree", "out_rmtree", "rmroot")
        if k == "mkfile":
            Y()
            with open(r(op[1]), "w"):
                pass
        elif k == "mkspecial":
            Y()
            if op[2] == "fifo":
                os.mkfifo(r(op[1]))
            elif op[2] == "dirlink":
                # a symbolic link to a directory: the kernel reports it without IN_ISDIR, os.walk lists it among the directories
                os.symlink(self.topb + b"/linktarget", r(op[1]))
            else:
                os.symlink(b"/nonexistent/wdsim-dangling-target", r(op[1]))
        elif k == "write":
            Y()
            with open(r(op[1]), "a") as f:
                f.write("x")
        elif k == "chmod":
            Y()
            isd = m.kind(op[1]) == "d"
            n = self.chmod_flip.get(op[1], 0)
            self.chmod_flip[op[1]] = n + 1
            os.chmod(r(op[1]), ([0o700, 0o755] if isd else [0o600, 0o644])[n % 2])
        elif k == "unlink":
            Y()
            os.unlink(r(op[1]))
        elif k == "mkdir":
            Y()
            os.mkdir(r(op[1]))
        elif k == "makedirs":
            p = op[1]
            for nme in op[2]:
                p = p + "/" + nme
                Y()
                os.mkdir(r(p))
        elif k == "burst":
            p = op[1]
            paths = []
            for nme in op[2]:
                p = p + "/" + nme
                paths.append(p)
                Y()
                os.mkdir(r(p))
            for lvl, dn in (op[4] if len(op) > 4 else []):
                Y()
                os.mkdir(r(paths[lvl] + "/" + dn))
            for lvl, ln in (op[5] if len(op) > 5 else []):
                Y()
                os.symlink(self.topb + b"/linktarget", r(paths[lvl] + "/" + ln))
            for lvl, fn in op[3]:
                Y()
                with open(r(paths[lvl] + "/" + fn), "w"):
                    pass
        elif k == "rmdir":
            Y()
            os.rmdir(r(op[1]))
        elif k in ("rmtree", "out_rmtree"):
            items = [op[1]] + m.subtree(op[1])
            for q in sorted(items, key=lambda q: (-q.count("/"), q)):
                Y()
                if m.kind(q) == "d":
                    os.rmdir(r(q))
                else:
                    os.unlink(r(q))
        elif k == "rename":
            Y()
            os.rename(r(op[1]), r(op[2]))
        elif k == "moveout":
            Y()
            os.rename(r(op[1]), r("out/" + op[2]))
        elif k == "moveback":
            Y()
            os.rename(r(op[1]), r(op[2]))
        elif k == "movein_file":
            src = r("out/" + op[1])
            with open(src, "w"):
                pass
            Y()
            os.rename(src, r(op[2]))
        elif k == "movein_tree":
            src = r("out/t%d" % self.opi)
            os.mkdir(src)
            for rel, kind in op[1]:
                if kind == "d":
                    os.mkdir(src + b"/" + enc(rel))
                elif kind == "s":
                    if self.opi % 2:
                        os.symlink(self.topb + b"/linktarget", src + b"/" + enc(rel))
                    else:
                        os.mkfifo(src + b"/" + enc(rel))
                else:
                    with open(src + b"/" + enc(rel), "w"):
                        pass
            Y()
            os.rename(src, r(op[2]))
        elif k == "rmroot":
            items = m.subtree("root")
            for q in sorted(items, key=lambda q: (-q.count("/"), q)):
                Y()
                if m.kind(q) == "d":
                    os.rmdir(r(q))
                else:
                    os.unlink(r(q))
            Y()
            os.rmdir(r("root"))
        elif k == "out_mkfile":
            Y()
            with open(r(op[1]), "w"):
                pass
        elif k == "out_mkdir":
            Y()
            os.mkdir(r(op[1]))
        else:
            raise AssertionError(f"unknown op {op}")
        self.busy = False
        before = fm.Model.__new__(fm.Model)
        before.t = dict(m.t)
        fm.apply(m, op)
        self.ever.update(m.t)
        if not pre:
            fm.taint_after(before, m, op)

    # ------------------------------------------------------------------ oracles
    def replay(self, tree0, events, unknown=None):
        """Most lenient natural replay.  `unknown` (a list) collects the primary moved events whose source is not in
        the replayed tree at that moment (the lenient replay then simply creates the destination)."""
        t = dict(tree0)

        def rm(p):
            for q in [q for q in t if fm.is_under(q, p)]:
                del t[q]

        for rec in events:
            et, isd, s, d, syn = rec["shape"]
            kind = "d" if isd else "f"
            if et == "created":
                t[s] = kind
            elif et == "deleted":
                rm(s)
            elif et == "moved":
                if not s:
                    t[d] = kind
                elif not d:
                    rm(s)
                elif s in t:
                    sub = {q: v for q, v in t.items() if fm.is_under(q, s)}
                    sub[s] = kind  # the flavour of the moved entry itself is the event's
                    rm(s)
                    rm(d)
                    for q, v in sub.items():
                        t[d + q[len(s):]] = v
                else:
                    if unknown is not None and not syn:
                        unknown.append(rec["shape"])
                    t.setdefault(d, kind)
        return t

    def oracle_replay(self, tree0, upto_seq=None, handler=0):
        """C01: replaying created/deleted/moved events over tree0 gives the real tree."""
        real = self.scan("root")
        evs = [e for e in self.events if e["h"] == handler and e["phase"] == "ops"]
        got = self.replay(tree0, evs)
        if real is None:
            real = {}
        if not self.recursive:
            real = {p: k for p, k in real.items() if fm.parent(p) == "root"}
            got = {p: k for p, k in got.items() if fm.parent(p) == "root"}
            tree0 = {p: k for p, k in tree0.items() if fm.parent(p) == "root"}
        if got == real:
            return None
        phantom = {p: k for p, k in got.items() if real.get(p) != k}
        missing = {p: k for p, k in real.items() if got.get(p) != k}
        return {"phantom": phantom, "missing": missing}

    def oracle_sound(self, handler=0, phase="ops"):
        """C03 soundness: every delivered event is in the allowed set of an operation issued before its delivery."""
        bad = []
        for rec in self.events:
            if rec["h"] != handler or rec["phase"] != phase:
                continue
            sh = rec["shape"]
            ok = False
            for c in self.contracts:
                if c["opi"] > rec["opi"]:
                    break
                if sh in c["A"]:
                    ok = True
                    break
            if not ok:
                bad.append(rec)
        return bad

    def oracle_contract(self, handler=0):
        """C03 completeness for paced runs: R(o) <= delivered(o) <= A(o), primary and synthetic events exactly once."""
        out = []
        for c in self.contracts:
            if not c["drained"] or not c["clean_start"]:
                continue
            evs = [e["shape"] for e in self.events if e["h"] == handler and e["opi"] == c["opi"] and e["phase"] == "ops"]
            D = set(evs)
            missing = c["R"] - D
            extra = D - c["A"]
            dup = []
            if c["op"][0] not in ("makedirs", "burst", "rmtree", "rmroot"):
                for sh in c["R"]:
                    if not (sh[0] == "modified" and sh[1]) and evs.count(sh) > 1:
                        dup.append(sh)
            if missing or extra or dup:
                out.append({"op": c["op"], "opi_": c["opi"], "missing": sorted(missing), "extra": sorted(extra), "dup": sorted(dup), "delivered": evs})
        return out


def classify_event(sh):
    et, isd, s, d, syn = sh
    return f"{'syn-' if syn else ''}{'dir' if isd else 'file'}-{et}"
