"""FS-world scenarios: C01 (replay), C02 (coverage probes), C03 (soundness + per-operation contract)."""
from __future__ import annotations

import copy
import random

from . import fsmodel as fm
from . import prims
from .core import DONE
from .fsworld import FsRun
from .scenario import Scenario, Violation, draw_sched, drop_each, key_of, simpler_sched

COMPONENTS = {
    "real": ["watchdog.observers.api", "watchdog.observers.inotify (InotifyEmitter/InotifyFullEmitter)", "watchdog.observers.inotify_buffer", "watchdog.observers.inotify_c (Inotify, parser, re-keying)",
             "watchdog.utils.delayed_queue", "watchdog.utils.bricks", "watchdog.events (sub-event generators)", "Linux inotify + tmpfs (real kernel, serialised)"],
    "simulated": ["thread scheduling", "clock (pairing delay)", "descriptor table (virtual fds over real ones)", "read-buffer size (short reads)", "os.walk ordering + yield points"],
}
ASSUME = [
    "the Linux kernel queues inotify records synchronously inside the causing system call, so with one task running at a time it is a deterministic function of the serialised call sequence (checked by selftest-determinism)",
    "scratch trees live on tmpfs (/dev/shm); directory listing order is hidden behind a sorting walk proxy",
    "operations respect the directory pacing condition of C01 (enforced by the generator, re-validated on the recorded history)",
]
PROBE = "__probe"
OUT_WEIGHTS = dict(fm.DEFAULT_WEIGHTS, out_mkfile=2, out_mkdir=1, out_rmtree=2, moveout=3, moveback=2)


def probe_dirs(run, tree):
    return ["root"] + sorted(p for p, k in tree.items() if k == "d")


class FsScenario(Scenario):
    components = COMPONENTS
    assumptions = ASSUME
    budget = {"quick": 30, "thorough": 600, "minimise": 90}
    names = ("a", "b", "c")
    name_universes = [("a", "b", "c"), ("a", "b", "c"), ("a", "ab", "b")]
    weights = None
    allow_ops = None
    paced_share = 0.0  # share of runs that drain after every operation
    unpaced_share = 0.0  # share of the remaining runs whose history ignores the directory pacing condition
    paced_out = True  # operations on entries that have left the tree wait for a drain after the move out
    with_probes = True
    nonrec_share = 0.2
    full_share = 0.2
    line_share = 0.5
    max_ops = 12

    # ------------------------------------------------------------------ generation
    def gen_watch(self, cfg):
        return {
            "recursive": cfg.random() >= self.nonrec_share,
            "full": cfg.random() < self.full_share,
            "root_kind": cfg.choice(["str", "str", "bytes"]),
            "spelling": cfg.choice(["abs", "abs", "abs", "abs", "rel", "reldot", "slash", "dot", "dslash"]),
        }

    enum_first = False

    def gen_enum_case(self, seed, idx):
        """Thorough tier: all 1- and 2-operation histories over a tiny universe x {recursive, non-recursive} x
        {normal, full emitter}, each under a seeded schedule, before the random histories."""
        hs = fm.enum_histories()
        pre, ops = hs[idx // 4]
        cfg = random.Random(f"{seed}:cfg")
        sched = draw_sched(cfg, line=cfg.random() < self.line_share, pct_k=1500, step_cap=400_000, horizon=3600, pct_share=0.15)
        if sched.get("p_line", 0) > 0.05:
            sched["p_line"] = 0.02
        paced = all(o[0] == "drain" for o in ops[1::2]) and len(ops) != 2
        return {"pre": [list(o) for o in pre], "ops": [list(o) for o in ops], "watch": {"recursive": idx % 2 == 0, "full": (idx // 2) % 2 == 1, "root_kind": cfg.choice(["str", "bytes"]), "spelling": "abs"},
                "delay": 0.5, "faults": {"short_read": [cfg.choice([32, 64, 0])]} if cfg.random() < 0.3 else {}, "paced": paced, "sched": sched, "enumerated": True}

    def gen_case(self, seed, tier, idx):
        if self.enum_first and tier == "thorough" and idx < 4 * len(fm.enum_histories()):
            return self.gen_enum_case(seed, idx)
        rng = random.Random(f"{seed}:ops")
        cfg = random.Random(f"{seed}:cfg")
        frng = random.Random(f"{seed}:fault")
        m = fm.Model()
        if self.name_universes:
            # swarm: some runs use a universe in which one name is a strict prefix of another (sibling "a" / "ab")
            self_names = cfg.choice(self.name_universes)
        else:
            self_names = self.names
        pre = fm.gen_ops(rng, m, rng.randrange(0, 5), names=self_names, paced=False, allow={"mkdir", "mkfile", "makedirs"})
        m.drain()
        n = rng.randrange(1, 4) if rng.random() < 0.3 else rng.randrange(3, self.max_ops + 1)
        if cfg.random() < (0.12 if tier == "thorough" else 0.03):
            n = 40
        paced = cfg.random() < self.paced_share
        unpaced = (not paced) and cfg.random() < self.unpaced_share  # histories outside the pacing condition (C03 soundness)
        w = dict(self.pick_weights(cfg) or fm.DEFAULT_WEIGHTS)
        if paced:
            w.pop("drain", None)
        else:
            w["drain"] = cfg.choice([0, 1, 3, 6])
        ops = fm.gen_ops(rng, m, n, names=self_names, weights=w, paced=not unpaced, drain_each=paced, allow=self.allow_ops, paced_out=self.paced_out)
        faults = {}
        if frng.random() < 0.5:
            faults["short_read"] = [frng.choice([32, 48, 64, 96, 300, 0]) for _ in range(frng.randrange(1, 5))]
        if frng.random() < 0.08:
            faults["overflow_marks"] = sorted({frng.randrange(0, 10) for _ in range(frng.choice([1, 2]))})
        sched = draw_sched(cfg, line=cfg.random() < self.line_share, pct_k=3000, step_cap=400_000, horizon=3600, pct_share=0.15)
        if sched.get("p_line", 0) > 0.05:
            sched["p_line"] = 0.02
        if cfg.random() < 0.1:
            sched["stall"] = [cfg.choice(["BaseObserver", "Em", "InotifyBuffer"]), cfg.randrange(0, 2000), cfg.randrange(50, 1500)]
        case = {"pre": pre, "ops": ops, "watch": self.gen_watch(cfg), "delay": cfg.choice([0.5, 0.5, 0.125, 2.0]), "faults": faults, "paced": paced, "sched": sched}
        if unpaced:
            case["unpaced"] = True
        self.tweak(case, rng, cfg)
        nrng = random.Random(f"{seed}:nested")
        if self.nested_share and nrng.random() < self.nested_share and not (set(case["faults"]) & {"vanish", "add_fail"}) and ["rmroot"] not in case["ops"]:
            # a second watch on the same observer, on a directory below the root (its own inotify instance / snapshot):
            # what the first watch's handler sees must not depend on it, and its handler sees nothing outside its directory
            mp = fm.Model()
            for op in case["pre"]:
                fm.apply(mp, op)
            dirs = sorted(d for d in mp.dirs_in("root") if d != "root")
            if dirs:
                case["watch"]["nested"] = [nrng.choice(dirs), nrng.random() < 0.6]
        return case

    nested_share = 0.15

    def tweak(self, case, rng, cfg):
        pass

    def pick_weights(self, cfg):
        return self.weights

    def shrink(self, case):
        def rebuilt(ops=None, pre=None):
            c = copy.deepcopy(case)
            if pre is not None:
                c["pre"] = pre
            if ops is not None:
                c["ops"] = ops
            pre_kept, _ = fm.revalidate([], c["pre"], paced=False)
            c["pre"] = pre_kept
            kept, _ = fm.revalidate(c["pre"], c["ops"], paced=not case.get("unpaced"), paced_out=self.paced_out)
            c["ops"] = kept
            return c

        seen = set()
        for cand_ops in drop_each(case["ops"]):
            c = rebuilt(ops=cand_ops)
            k = key_of([c["pre"], c["ops"]])
            if k not in seen and len(c["ops"]) < len(case["ops"]):
                seen.add(k)
                yield c
        for cand_pre in drop_each(case["pre"]):
            c = rebuilt(pre=cand_pre)
            k = key_of([c["pre"], c["ops"]])
            if k not in seen and (len(c["pre"]) < len(case["pre"])):
                seen.add(k)
                yield c
        if case["faults"]:
            c = copy.deepcopy(case)
            c["faults"] = {}
            yield c
        if case["sched"].get("stall"):
            c = copy.deepcopy(case)
            del c["sched"]["stall"]
            yield c
        yield from simpler_sched(case)

    # ------------------------------------------------------------------ execution
    def judge(self, run, res, sim, verdict):
        raise NotImplementedError

    def run_case(self, case, sched_seed, trace=None):
        run = FsRun(case)
        run.enable_monitoring()
        res = {}
        # independent re-validation of the pre-condition (pacing rule) on the history about to be executed
        kept, _ = fm.revalidate(case["pre"], case["ops"], paced=not case.get("unpaced"), paced_out=self.paced_out)
        if kept != case["ops"]:
            return {"harness_error": f"history violates the pacing pre-condition or the model: {case['ops']} vs {kept}", "violations": [], "stats": {}, "digest": "", "trace": {}}

        def main():
            sim = prims.cur_sim()
            run.apply_pre(case["pre"])
            tree0 = run.scan("root")
            res["tree0"] = tree0
            obs = run.build()
            wp = run.watch_path()
            run.watch0 = obs.schedule(run.handlers[0], wp, recursive=run.recursive)
            tk = case["watch"].get("twin_kind")
            if tk is not None:
                # the same directory scheduled a second time on the same observer, given in the other path type
                import os as _os

                h1 = run.H(1)
                run.handlers.append(h1)
                wp2 = _os.fsencode(str(wp) if not isinstance(wp, (str, bytes)) else wp) if tk == "bytes" else _os.fsdecode(str(wp) if not isinstance(wp, (str, bytes)) else wp)
                obs.schedule(h1, wp2, recursive=run.recursive)
            nd = case["watch"].get("nested")
            if nd and nd[0] in run.model.t:
                import os as _os

                h2 = run.H(2)
                run.handlers.append(h2)
                base = wp if isinstance(wp, (str, bytes)) else str(wp)
                rel = nd[0][len("root/"):]
                obs.schedule(h2, _os.path.join(base, _os.fsencode(rel) if isinstance(base, bytes) else rel), recursive=nd[1])
                res["nested"] = nd[0]
            of = case["watch"].get("other_filter")
            if of is not None and of != case["watch"].get("twin_filter"):
                import watchdog.events as wev

                h3 = run.H(3)
                obs.schedule(h3, wp, recursive=run.recursive, event_filter=[getattr(wev, n) for n in of])
            tf = case["watch"].get("twin_filter")
            if tf is not None:
                import watchdog.events as wev

                h1 = run.H(1)
                run.handlers.append(h1)
                obs.schedule(h1, wp, recursive=run.recursive, event_filter=[getattr(wev, n) for n in tf])
            obs.start()
            for op in case["ops"]:
                run.exec_op(op)
            if case.get("early_stop"):
                # stop() while events are still in flight: only thread/exception/descriptor verdicts apply
                run.phase = "teardown"
                obs.stop()
                obs.join()
                res["alive_lib"] = [t.name for t in sim.tasks if t.kind == "lib" and t.state != DONE]
                res["open_fds"] = run.kshim.open_fds()
                res["fd_misuse"] = list(run.kshim.violations)
                res["early"] = True
                return
            run.exec_op(["drain"])
            res["n_ops"] = run.opi + 1
            res["ever_paths"] = sorted(run.ever)
            if run.backend == "polling":
                sim.rec("events-sorted", sorted(e["shape"] for e in run.events))
            res["replay"] = run.oracle_replay(tree0) if run.backend == "inotify" and not case.get("unpaced") else None
            real = run.scan("root")
            res["real"] = real
            mt = {p: ("d" if k == "d" else "f") for p, (k, _) in run.model.t.items() if fm.is_under(p, "root") and p != "root"}
            if real is not None and mt != real:
                raise AssertionError(f"model tree != real tree: {sorted(set(mt.items()) ^ set(real.items()))[:6]}")
            self.after_ops(run, res, sim)
            if self.with_probes and real is not None and "root" in run.model.t and not case.get("unpaced"):
                run.phase = "probe"
                res["probes"] = self.do_probes(run, sim, real)
                res["probes_filtered"] = res["probes"].get("filtered_missing")
            run.phase = "teardown"
            obs.stop()
            obs.join()
            res["nonascii"] = any(not p.isascii() for e in run.events for p in (e["shape"][2], e["shape"][3]))
            res["alive_lib"] = [t.name for t in sim.tasks if t.kind == "lib" and t.state != DONE]
            res["open_fds"] = run.kshim.open_fds()
            res["fd_misuse"] = list(run.kshim.violations)
            res["done"] = True

        def finish(sim, verdict):
            try:
                v = self.judge(run, res, sim, verdict)
            finally:
                run.cleanup()
            sample = {"pre": case["pre"], "ops": case["ops"], "events": [e["shape"] for e in run.events[:40]]}
            return v, {"sample": sample, "hist_key": key_of([case["pre"], case["ops"], case["watch"]]), "nontrivial": bool(res.get("nonascii")),
                       "extra": {"enumerated_short_history_runs": 1 if case.get("enumerated") else 0, "paced_runs": 1 if case.get("paced") else 0}}

        try:
            return self.simulate(case, sched_seed, trace, run.install, main, finish)
        finally:
            run.cleanup()

    def after_ops(self, run, res, sim):
        pass

    def do_probes(self, run, sim, real):
        """C02: a probe file in every directory of the real tree must be reported under its real path (recursive) /
        only in the root (non-recursive); probes outside the scope must not be reported."""
        import os

        out = {"missing": [], "wrong_path": [], "unexpected": []}
        dirs = probe_dirs(run, real)
        for d in dirs:
            n0 = len(run.events)
            pp = d + "/" + PROBE
            sim.yield_point("probe")
            with open(run.real(pp), "w"):
                pass
            sim.wait_quiescent()
            evs = [e["shape"] for e in run.events[n0:] if e["h"] == 0]
            expected = run.recursive or d == "root"
            hit = ("created", False, pp, "", False) in evs
            others = [s for s in evs if s[0] == "created" and s[2].endswith("/" + PROBE) and s[2] != pp]
            if expected and not hit:
                out["missing"].append(d)
            if not expected and (hit or others):
                out["unexpected"].append(d)
            if others and expected:
                out["wrong_path"].append((d, others[0][2]))
            sim.yield_point("probe")
            os.unlink(run.real(pp))
            sim.wait_quiescent()
        # negative probe: the sibling directory outside the watched root
        n0 = len(run.events)
        sim.yield_point("probe")
        with open(run.real("out/" + PROBE), "w"):
            pass
        sim.wait_quiescent()
        evs = [e["shape"] for e in run.events[n0:] if e["h"] == 0]
        if evs:
            out["unexpected"].append("out")
        os.unlink(run.real("out/" + PROBE))
        return out


def generic_violations(prop, sim, verdict, res, run=None):
    """Verdicts every FS-world property reports: hang/deadlock of the run itself and uncaught exceptions are
    attributed to C06/C07; other properties report them under their own id only as a generic signature so that a
    dead pipeline is never silently counted as a pass."""
    v = []
    if verdict is not None:
        kind, info = verdict
        who = sorted({f"{n.split('#')[0]}:{w}" for n, k, w in info}) if kind != "stepcap" else []
        v.append(Violation(kind, f"{prop}:{kind}:" + ",".join(who), f"{kind}: {info}"))
    for u in sim.uncaught:
        if u["kind"] != "actor":
            fn = u["where"][-1][2] if u["where"] else "?"
            v.append(Violation("uncaught", f"{prop}:uncaught:{u['task'].split('#')[0]}:{u['exc']}:{fn}", str(u)))
    if res.get("nested") and run is not None:
        nd = res["nested"]
        foreign = [e["shape"] for e in run.events if e["h"] == 2 and not all(p == "" or p == nd or fm.is_under(p, nd) for p in (e["shape"][2], e["shape"][3]))]
        if foreign:
            v.append(Violation("foreign-event", f"{prop}:nested-watch-received-foreign-path", f"watch on {nd} delivered {foreign[:4]}"))
    return v


class C01(FsScenario):
    prop = "C01"
    enum_first = True
    design_ref = "DESIGN.md 3.1, 4/C01"
    rule = ("case = (pre-existing tree, operation history generated against a model tree under the directory pacing rule over names {a,b,c} depth<=3: create/write/chmod/"
            "unlink/mkdir/makedirs/rmdir/rmtree/rename+replace/move out/move in of files and trees/drain, watch flags recursive|non-recursive x normal|full emitter x str|bytes root, "
            "pairing delay, read-buffer split policy, scheduler configuration); distinct = distinct (history digest, interleaving digest); non-trivial = a non-default scheduling "
            "decision was taken or a fault (short read, stall) fired; also: an entry that left the tree may return (moveback), special entries (FIFO, dangling link, link to a directory), "
            "an overflow marker appended to a read (8% of the runs, nothing dropped), and in 15% of the runs a second watch on a sub-directory on the same observer; C01 itself: "
            "20% of the runs go on operating on entries that have left the tree, 15% drain after every operation, 6% start from the directed shape replace-a-directory-by-rename / move it out / operate outside / re-use the name")
    level_text = ("Seeded search over histories x schedules x kernel-buffer splits of the real InotifyObserver on the real kernel; oracle: replaying the delivered created/deleted/moved "
                  "events (most lenient natural semantics) over the tree at start() gives exactly the tree on disk at the final quiescence (root's direct children for a non-recursive watch).")
    level_note = "sampling, not proof; real kernel trusted as deterministic serialised component; histories limited to 3 names x depth 3, <=12 (rarely 40) operations"

    paced_share = 0.15  # some histories drain after every operation (the three-step shapes: replace, drain, move out, drain, ...)

    def pick_weights(self, cfg):
        # a fifth of the runs go on operating on entries after they have left the tree: nothing of that may reach the
        # stream (the replayed tree would grow entries the disk does not have)
        return OUT_WEIGHTS if cfg.random() < 0.2 else None

    def tweak(self, case, rng, cfg):
        if cfg.random() < 0.06:
            # directed three-step shape the random walk reaches too rarely: a directory replaces an empty directory by
            # rename, the result leaves the tree, and life goes on inside it outside the tree (nothing of that may be
            # reported); then its name is re-used
            names = sorted({n for o in case["pre"] + case["ops"] for q in o[1:] if isinstance(q, str) for n in q.split("/")[1:]} - {"", "o0", "o1"}) or ["a", "b"]
            if len(names) < 2:
                names = ["a", "b"]
            a, b = rng.sample(names, 2)
            base = "root" if rng.random() < 0.6 else "root/" + rng.choice(names)
            pre = [] if base == "root" else [["mkdir", base]]
            src, dst = base + "/" + a, base + "/" + b
            pre += [["mkdir", src], ["mkdir", dst]]
            fill = rng.randrange(3)
            if fill >= 1:
                pre.append(["mkfile", src + "/" + names[0]])
            if fill == 2:
                pre.append(["mkdir", src + "/" + names[1]])
            outop = rng.choice([["out_mkfile", "out/o0/" + rng.choice(names)], ["out_mkdir", "out/o0/" + rng.choice(names)], ["out_rmtree", "out/o0"]])
            ops = [["rename", src, dst], ["drain"], ["moveout", dst, "o0"], ["drain"], outop, ["drain"]]
            if rng.random() < 0.5:
                ops += [["mkdir", dst], ["drain"], ["mkfile", dst + "/" + rng.choice(names)], ["drain"]]
            pre_kept, _ = fm.revalidate([], pre, paced=False)
            kept, _ = fm.revalidate(pre_kept, ops, paced=True, paced_out=self.paced_out)
            if len(kept) >= 5:
                case["pre"], case["ops"], case["paced"] = pre_kept, kept, True
                case.pop("unpaced", None)
                case["directed"] = "replace-moveout-outside"

    def judge(self, run, res, sim, verdict):
        v = generic_violations("C01", sim, verdict, res, run)
        if res.get("done") and res.get("replay"):
            d = res["replay"]
            paths = sorted(set(d["phantom"]) | set(d["missing"]))
            kinds = ("phantom" if d["phantom"] else "") + ("missing" if d["missing"] else "")
            v.append(Violation("replay", f"C01:replay-mismatch:{kinds}:{'rec' if run.recursive else 'nonrec'}", f"replayed tree differs from the real tree at {paths[:6]}: {d}; ops={run.case['ops']}"))
        return v


class C02(FsScenario):
    prop = "C02"
    enum_first = True
    design_ref = "DESIGN.md 3.1, 4/C02"
    rule = C01.rule + "; after the history every directory of the real tree (and the sibling directory outside the root) receives a probe file"
    level_text = ("Same runs as C01 plus a probe phase at the simulator's quiescent point: a file created in every existing directory must be reported as FileCreatedEvent under its real "
                  "current path (recursive); under a non-recursive watch only probes in the root are reported; probes outside the root never are.")
    level_note = C01.level_note
    nonrec_share = 0.25

    def judge(self, run, res, sim, verdict):
        v = generic_violations("C02", sim, verdict, res, run)
        pr = res.get("probes")
        if pr:
            if pr["missing"]:
                v.append(Violation("uncovered", f"C02:unreported-probe:{'rec' if run.recursive else 'nonrec'}", f"changes in {pr['missing']} are not reported; ops={run.case['ops']} pre={run.case['pre']}"))
            if pr["wrong_path"]:
                v.append(Violation("stale-name", "C02:probe-reported-under-wrong-path", f"{pr['wrong_path']}; ops={run.case['ops']}"))
            if pr["unexpected"]:
                v.append(Violation("out-of-scope", f"C02:out-of-scope-probe-reported:{'rec' if run.recursive else 'nonrec'}", f"{pr['unexpected']}; ops={run.case['ops']}"))
        return v


class C03(FsScenario):
    prop = "C03"
    enum_first = True
    design_ref = "DESIGN.md 3.1, 4/C03, Appendix A"
    rule = C01.rule + "; 60% of the runs drain after every operation (per-operation contract), the rest race (soundness only)"
    level_text = ("Soundness on every run: each delivered event must lie in the allowed set A(o) of an operation issued before its delivery (right paths, File/Dir flavour, synthetic only for "
                  "descendants of a moved/arrived directory). Completeness on paced runs: R(o) <= delivered(o) <= A(o) with primary and synthetic events exactly once, from every tree state "
                  "the random walk reaches.")
    level_note = C01.level_note + "; A(o)/R(o) follow Appendix A of DESIGN.md (calibrated on the unchanged tree, sets not sequences)"
    paced_share = 0.6
    unpaced_share = 0.0  # unpaced histories make the library report renames as created/deleted by design: not judged
    with_probes = False

    def pick_weights(self, cfg):
        # a third of the runs also operate on entries that have left the tree (phantom events)
        return OUT_WEIGHTS if cfg.random() < 0.33 else None

    def tweak(self, case, rng, cfg):
        if rng.random() < 0.1:
            # the history ends with the deletion of the watched root (contract: one DirDeleted(root), nothing outside the scope)
            case["ops"].append(["drain"])
            case["ops"].append(["rmroot"])

    def judge(self, run, res, sim, verdict):
        v = generic_violations("C03", sim, verdict, res, run)
        if not res.get("done"):
            return v
        bad = run.oracle_sound()
        if bad and run.case.get("unpaced"):
            bad = [b for b in bad if not self.late_descendant(run, b)]
        if bad:
            from .fsworld import classify_event

            kinds = sorted({classify_event(b["shape"]) for b in bad})
            # events caused by operations on a directory after it was moved out of the tree (its kernel watch survives
            # the move): every unjustified event was delivered after such an operation was issued
            out_ops = [c["opi"] for c in run.contracts if c["op"][0].startswith("out_")]
            if out_ops and all(b["opi"] >= min(out_ops) for b in bad):
                v.append(Violation("phantom", "C03:phantom:dir-moved-out", f"{[b['shape'] for b in bad[:4]]} reported for operations on a directory that had been moved out of the watched tree; ops={run.case['ops']}"))
            else:
                v.append(Violation("unsound", "C03:unjustified-event:" + ",".join(kinds[:3]), f"{[b['shape'] for b in bad[:4]]} not explained by ops {run.case['ops']}"))
        for c in run.oracle_contract():
            if c["op"][0].startswith("out_"):
                continue  # events of operations outside the tree are reported by the soundness oracle above
            what = ("missing" if c["missing"] else "") + ("extra" if c["extra"] else "") + ("dup" if c["dup"] else "")
            v.append(Violation("contract", f"C03:contract:{c['op'][0]}:{what}:{'rec' if run.recursive else 'nonrec'}{':full' if run.full else ''}", f"{c}"))
            break
        return v



def _late_descendant(run, rec):
    """Unpaced histories: a synthetic event may name a descendant that entered the moved / arrived directory through a
    later operation (the library walks the destination when it processes the move).  The statement allows it: its
    destination is a real descendant of that directory and its source the same relative path under the old name."""
    et, isd, s, d, syn = rec["shape"]
    if not syn:
        return False
    for c in run.contracts:
        if c["opi"] > rec["opi"]:
            break
        op = c["op"]
        if et == "moved" and op[0] == "rename" and fm.is_under(d, op[2]) and d != op[2] and s == op[1] + d[len(op[2]):] and d in run.ever:
            return True
        if et == "created" and op[0] == "movein_tree" and fm.is_under(s, op[2]) and s != op[2] and s in run.ever:
            return True
    return False


C03.late_descendant = staticmethod(_late_descendant)


class C07(FsScenario):
    prop = "C07"
    design_ref = "DESIGN.md 3.1, 4/C07"
    level = "exploration"
    rule = (C01.rule + "; extended alphabet: operations on directories after they were moved out of the tree, names re-used after a drain, deletion of the root as last operation; "
            "vanish faults: right before the library's k-th inotify_add_watch the entry it is about to watch is really removed (<=2 per run, half of the runs); "
            "refused watches: the k-th inotify_add_watch after start() fails with ENOSPC/EACCES (15% of the runs; 40% of those use a directed shape: a watched directory leaves a refused one, "
            "then an ancestor of its old path is renamed); a directory that left the tree may come straight back to the path it left while its IN_MOVED_FROM is still held back (5% of the runs start from that shape); after a root deletion half of the runs re-create the root and schedule the same watch again")
    level_text = ("Liveness under histories and transient lookup failures: no library thread ends with an uncaught exception, the run neither deadlocks nor hangs, a probe file in every directory "
                  "that exists after the history is still reported (a directory whose watch the kernel refused and what lies below it excepted), and after the root was deleted exactly one "
                  "DirDeletedEvent(root) is delivered, the emitter and its reader thread have finished, their descriptors are closed before any stop(), nothing further is delivered, and a "
                  "watch scheduled again on the re-created root reports.")
    level_note = C01.level_note + "; fault-free and vanish-fault configurations are counted separately in the evidence"
    weights = OUT_WEIGHTS
    nonrec_share = 0.15
    paced_out = False  # liveness must hold when a moved-out directory is touched or removed at once (within the pairing delay)

    def __init__(self, *a, **k):
        super().__init__(*a, **k)
        fm.RETURN_HOME = True  # this process runs C07: a directory may come straight back to the path it left

    def tweak(self, case, rng, cfg):
        hrng = random.Random(f"{cfg.random()}:home")
        if hrng.random() < 0.05 and case["watch"].get("recursive", True):
            # directed shape: a directory leaves the tree and comes straight back under its own name (two unpaired
            # renames inside the pairing delay); when the held-back IN_MOVED_FROM expires nothing of the returned tree may
            # lose its watch
            m = fm.Model()
            for op in case["pre"]:
                fm.apply(m, op)
            dirs = sorted(d for d in m.dirs_in("root") if d != "root")
            pre = list(case["pre"])
            if not dirs:
                pre += [["mkdir", "root/a"], ["mkdir", "root/a/b"]]
                dirs = ["root/a"]
            d = hrng.choice(dirs)
            ops = [["moveout", d, "o0"], ["moveback", "out/o0", d]] + ([["drain"]] if hrng.random() < 0.7 else []) + [["mkfile", d + "/" + hrng.choice("abc")], ["drain"]]
            pre_kept, _ = fm.revalidate([], pre, paced=False)
            kept, _ = fm.revalidate(pre_kept, ops, paced=True, paced_out=False)
            mk = fm.Model()
            for op in pre_kept:
                fm.apply(mk, op)
            if len(kept) >= 3 and kept[1][0] == "moveback" and mk.kind(d) == "d":
                case["pre"], case["ops"] = pre_kept, kept
                case["directed"] = "out-and-straight-back"
                return
        frng = random.Random(f"{cfg.random()}:vanish")
        if frng.random() < 0.5:
            m = fm.Model()
            for op in case["pre"]:
                fm.apply(m, op)
            n0 = len(m.dirs_in("root"))  # add_watch calls made by schedule/start itself are never faulted
            case["faults"]["vanish"] = {str(n0 + frng.randrange(0, 12)): True for _ in range(frng.choice([1, 1, 2]))}
        elif frng.random() < 0.3:
            # the kernel refuses a watch at run time (watch limit reached / permission): that directory stays unwatched,
            # but nothing else may break
            import errno as _errno

            m = fm.Model()
            for op in case["pre"]:
                fm.apply(m, op)
            n0 = len(m.dirs_in("root"))
            case["faults"]["add_fail"] = {str(n0 + frng.randrange(0, 10)): frng.choice([_errno.ENOSPC, _errno.ENOSPC, _errno.EACCES])}
            free = [n for n in ("a", "b", "c", "d", "e") if "root/" + n not in m.t]
            if len(free) >= 3 and frng.random() < 0.4 and case["watch"].get("recursive", True):
                # directed shape: a watched directory below a refused one leaves it unnoticed (no IN_MOVED_FROM is seen),
                # then an ancestor of its old path is renamed
                x, w, v = free[:3]
                y, z = frng.choice("abc"), frng.choice("abc")
                ops = [["makedirs", "root", [x, y, z]], ["drain"], ["rename", f"root/{x}/{y}/{z}", f"root/{w}"]] + ([["drain"]] if frng.random() < 0.5 else [])
                ops += [["rename", f"root/{x}", f"root/{v}"], ["drain"]]
                kept, _ = fm.revalidate(case["pre"], ops, paced=False, paced_out=False)
                if len(kept) == len(ops):
                    case["ops"] = ops
                    case["faults"]["add_fail"] = {str(n0 + 1): frng.choice([_errno.ENOSPC, _errno.EACCES])}
        if rng.random() < 0.25:
            case["ops"].append(["drain"])
            case["ops"].append(["rmroot"])
            case["reschedule_after_rmroot"] = rng.choice([0, 0, 1, 2])  # 2: also once too early, while the root is still missing
            case["unschedule_after_failed_reschedule"] = rng.random() < 0.5
        elif rng.random() < 0.2:
            case["early_stop"] = True
            case["sched"]["line"] = True
            if case["sched"]["policy"] != "pct":
                case["sched"]["p_line"] = 0.05

    def after_ops(self, run, res, sim):
        import os

        if "root" in run.model.t:
            return
        # root was deleted: exactly one DirDeleted(root), emitter and reader finished, nothing further is delivered
        res["root_deleted"] = True
        res["root_deleted_events"] = [e["shape"] for e in run.events if e["shape"][2] == "root" and e["shape"][0] == "deleted"]
        res["alive_after_rmroot"] = [t.name for t in sim.tasks if t.kind == "lib" and t.state != DONE and not t.name.startswith("BaseObserver")]
        res["open_fds_after_rmroot"] = run.kshim.open_fds()
        if run.case.get("reschedule_after_rmroot") == 2 and "add_fail" not in run.case["faults"]:
            # the application schedules the watch again too early, while the directory is still missing: that call fails
            # (and, as a call that failed, must leave things as they were)
            try:
                run.observer.schedule(run.handlers[0], run.watch_path(), recursive=run.recursive)
                res["early_reschedule"] = "returned"
            except OSError:
                res["early_reschedule"] = "OSError"
                if run.case.get("unschedule_after_failed_reschedule"):
                    # ... and reacts to the failure by dropping the watch
                    try:
                        run.observer.unschedule(run.watch0)
                    except Exception as e:  # noqa: BLE001
                        res["unschedule_after_reschedule_exc"] = repr(e)
        n0 = len(run.events)
        os.mkdir(run.real("root"))
        with open(run.real("root/again"), "w"):
            pass
        sim.wait_quiescent()
        res["events_after_rmroot"] = [e["shape"] for e in run.events[n0:]]
        if run.case.get("reschedule_after_rmroot") and "add_fail" not in run.case["faults"]:
            # the application reacts to DirDeleted(root): the directory is back, so it schedules the same watch again
            n1 = len(run.events)
            try:
                w2 = run.observer.schedule(run.handlers[0], run.watch_path(), recursive=run.recursive)
                with open(run.real("root/again2"), "w"):
                    pass
                sim.wait_quiescent()
                res["rescheduled"] = [e["shape"] for e in run.events[n1:] if e["h"] == 0]
                try:
                    run.observer.unschedule(w2)
                except Exception as e:  # noqa: BLE001
                    res["unschedule_after_reschedule_exc"] = repr(e)
            except OSError as e:
                res["rescheduled_exc"] = repr(e)
        import shutil

        shutil.rmtree(run.real("root"))
        sim.wait_quiescent()

    def judge(self, run, res, sim, verdict):
        v = generic_violations("C07", sim, verdict, res, run)
        if res.get("early"):
            if res["alive_lib"]:
                v.append(Violation("thread-alive", "C07:threads-alive-after-stop-join:" + ",".join(sorted({n.split('#')[0] for n in res["alive_lib"]})), f"{res['alive_lib']}"))
            return v
        if not res.get("done"):
            return v
        pr = res.get("probes")
        faulty = bool(run.vanished)
        if pr and pr["missing"] and run.kshim.failed_adds:
            # a directory whose watch the kernel refused (and what lies below it) is legitimately unwatched
            refused = [run.norm(p) for p in run.kshim.failed_adds]
            pr["missing"] = [d for d in pr["missing"] if not any(r and fm.is_under(d, r) for r in refused)]
        if pr and pr["missing"]:
            v.append(Violation("unreported", f"C07:later-change-unreported:{'rec' if run.recursive else 'nonrec'}{':after-vanish' if faulty else ''}", f"after the history, changes in {pr['missing']} are not reported; ops={run.case['ops']} vanished={run.vanished}"))
        if res.get("root_deleted"):
            n = len(res["root_deleted_events"])
            if n != 1:
                v.append(Violation("root-deleted", f"C07:root-deleted-events={n}", f"expected exactly one DirDeletedEvent(root), got {res['root_deleted_events']}"))
            if res["alive_after_rmroot"]:
                v.append(Violation("root-deleted", "C07:threads-alive-after-root-deleted:" + ",".join(sorted({n.split('#')[0] for n in res["alive_after_rmroot"]})), f"{res['alive_after_rmroot']}"))
            if res["events_after_rmroot"]:
                v.append(Violation("root-deleted", "C07:events-after-root-deleted", f"{res['events_after_rmroot'][:5]}"))
            if res.get("open_fds"):
                v.append(Violation("root-deleted", "C07:descriptors-open-after-root-deleted-and-stop", f"{res['open_fds']}"))
            if "rescheduled" in res and not any(sh[0] == "created" and sh[2] == "root/again2" for sh in res["rescheduled"]):
                v.append(Violation("root-deleted", "C07:watch-scheduled-again-after-root-came-back-reports-nothing", f"schedule() returned normally, then root/again2 was created; delivered {res['rescheduled'][:4]}"))
            if res.get("unschedule_after_reschedule_exc"):
                v.append(Violation("root-deleted", "C07:unschedule-raised-after-reschedule", f"{res['unschedule_after_reschedule_exc']} (early schedule() on the missing root: {res.get('early_reschedule')})"))
            if res.get("rescheduled_exc"):
                v.append(Violation("root-deleted", "C07:schedule-after-root-came-back-raised", res["rescheduled_exc"]))
            if res.get("open_fds_after_rmroot") and not res["alive_after_rmroot"]:
                # "stops cleanly": the emitter's own shutdown releases its descriptors, not a later stop()/unschedule()
                v.append(Violation("root-deleted", "C07:descriptors-open-after-root-deleted", f"{res['open_fds_after_rmroot']}"))
        return v


C14_SHAPES = [
    [["root", "d"], ["root/a", "d"], ["root/a/f", "f"]],
    [["a", "d"], ["a/root", "d"], ["a/root/a", "d"], ["b", "f"]],
    [["root", "d"], ["root/b", "d"], ["root/b/root", "d"], ["root/b/root/b", "f"]],
    [["a", "f"]],
    [["a", "d"], ["a/b", "s"], ["root", "s"]],
]


class C14(FsScenario):
    nested_share = 0  # twin / colliding-name configurations keep a single extra variable
    prop = "C14"
    design_ref = "DESIGN.md 4/C14"
    rule = ("FS-world with colliding name universes: root given as the relative path 'root' (str or bytes, chdir into the scratch top) or absolute, entry names from {root, a, b} to depth 4 so "
            "that a destination path string recurs inside its descendants' paths; histories of mkdir/makedirs/mkfile/rename/move-in, drained after every operation; distinct = distinct "
            "(history, interleaving) digests; non-trivial = pre-emption taken or short read fired")
    level_text = ("System-level half of C14 through the real pipeline: after every paced directory rename / move-in the delivered synthetic events must be exactly one per descendant in the model, "
                  "with the descendant's real new path, source = old directory path + same relative path, right flavour, parents before children, all marked synthetic; afterwards probes in "
                  "every directory check the re-keyed watch map. The two generator functions alone are pure and not separately decided.")
    level_note = "function-level exhaustive enumeration over trees is outside this technique (pure function); only trees reached through the pipeline are judged"
    names = ("root", "a", "b")
    name_universes = None
    paced_share = 1.0
    full_share = 0.1
    nonrec_share = 0.0
    max_ops = 9
    weights = {"mkfile": 3, "mkdir": 3, "makedirs": 3, "rename": 6, "movein_tree": 2, "moveout": 1, "unlink": 1, "mkspecial": 2}

    def gen_watch(self, cfg):
        w = super().gen_watch(cfg)
        w["spelling"] = cfg.choice(["rel", "rel", "abs"])
        w["recursive"] = True
        return w

    def gen_case(self, seed, tier, idx):
        old = fm.TREE_SHAPES
        fm.TREE_SHAPES = C14_SHAPES
        try:
            rng = random.Random(f"{seed}:ops")
            case = super().gen_case(seed, tier, idx)
            names = random.Random(f"{seed}:names").choice([("root", "a", "b"), ("root", "a", "b"), ("root", "a", "ab"), ("a", "ab", "abc")])
            # deeper pre-existing trees so that renames have colliding descendants
            m = fm.Model()
            pre = fm.gen_ops(random.Random(f"{seed}:pre"), m, rng.randrange(2, 8), names=names, max_depth=4, paced=False, allow={"mkdir", "mkfile", "makedirs", "mkspecial"})
            m.drain()
            case["pre"] = pre
            w = dict(self.weights)
            case["ops"] = fm.gen_ops(rng, m, rng.randrange(1, self.max_ops), names=names, max_depth=4, weights=w, paced=True, drain_each=True)
            case["paced"] = True
            return case
        finally:
            fm.TREE_SHAPES = old

    def judge(self, run, res, sim, verdict):
        v = generic_violations("C14", sim, verdict, res)
        if not res.get("done"):
            return v
        for c in run.oracle_contract():
            if c["op"][0] not in ("rename", "movein_tree"):
                continue
            syn = [x for x in c["missing"] + c["extra"] + c["dup"] if x[4]]
            if syn:
                what = ("missing" if any(x[4] for x in c["missing"]) else "") + ("extra" if any(x[4] for x in c["extra"]) else "") + ("dup" if c["dup"] else "")
                v.append(Violation("synthetic", f"C14:synthetic-events:{c['op'][0]}:{what}", f"{c}"))
                break
        # parents before children, per operation
        for c in run.contracts:
            if c["op"][0] not in ("rename", "movein_tree"):
                continue
            seen = set()
            top = c["op"][2]
            for e in run.events:
                if e["opi"] != c["opi"] or e["h"] != 0 or not e["shape"][4]:
                    continue
                d = e["shape"][3] or e["shape"][2]
                par = fm.parent(d)
                if par != top and fm.is_under(par, top) and par not in seen:
                    v.append(Violation("synthetic-order", "C14:child-before-parent", f"{e['shape']} delivered before the event for {par}; op={c['op']}"))
                    break
                seen.add(d)
        pr = res.get("probes")
        if pr and (pr["missing"] or pr["wrong_path"]):
            v.append(Violation("rekey", "C14:probe-after-rename:" + ("missing" if pr["missing"] else "") + ("wrong-path" if pr["wrong_path"] else ""), f"{pr}; ops={run.case['ops']} pre={run.case['pre']}"))
        return v


C19_NAMES = ("a", "é", "\udcff\udcfe", "b c")


class C19(FsScenario):
    prop = "C19"
    design_ref = "DESIGN.md 4/C19"
    rule = ("path configurations drawn per run: root as str / bytes / pathlib.Path x absolute / relative / trailing slash / './root' / embedded '/./' / doubled '//'; names from {a, e-acute, the two bytes FF FE (invalid UTF-8), 'b c'} or, in 40% of the runs, a universe with a name that is a strict prefix of a sibling's (e-acute / e-acute+a, FF / FF FE); "
            "operation histories of C03; backend = inotify observer (FS-world) or polling observer on the real scratch tree under the virtual clock; distinct = distinct (history, configuration, "
            "interleaving) digests; non-trivial = non-ASCII or undecodable name occurred in a delivered path, or a pre-emption was taken")
    level_text = ("Invariant over threaded runs of both observers: every non-empty src/dest path of every delivered event has the type of the scheduled path (bytes iff bytes) and, encoded with the "
                  "file-system encoding, equals the encoded root joined with the real relative name of an entry the history touched.")
    level_note = "polling backend runs on the real tmpfs with the virtual clock driving its poll timer; tmpfs accepts arbitrary byte names"
    names = C19_NAMES
    # some runs use siblings of which one name is a strict prefix of the other, in the odd alphabets too (a path rewritten
    # by textual prefix after a rename names an entry that never existed)
    name_universes = [C19_NAMES, C19_NAMES, C19_NAMES, ("\u00e9", "\u00e9a", "b c"), ("\udcff", "\udcff\udcfe", "a")]
    with_probes = False
    nonrec_share = 0.2
    budget = {"quick": 30, "thorough": 600, "minimise": 90}

    def gen_watch(self, cfg):
        w = super().gen_watch(cfg)
        w["root_kind"] = cfg.choice(["str", "bytes", "path"])
        w["spelling"] = cfg.choice(["abs", "rel", "slash", "reldot", "dot", "dslash"])
        w["backend"] = cfg.choice(["inotify", "inotify", "polling"])
        if cfg.random() < 0.3:
            w["twin_kind"] = "str" if w["root_kind"] == "bytes" else "bytes"
        return w

    def judge(self, run, res, sim, verdict):
        v = generic_violations("C19", sim, verdict, res, run)
        if run.type_errors:
            v.append(Violation("path-type", f"C19:wrong-path-type:{run.type_errors[0][1]}:{run.w['root_kind']}:{run.w.get('backend', 'inotify')}", f"{run.type_errors[:3]} with root {run.w}"))
        ever = set(res.get("ever_paths", ()))
        bad = []
        for e in run.events:
            if e["h"] == 2:
                continue  # a nested watch keeps reporting under the path it was scheduled with, also after that directory was renamed
            for p in (e["shape"][2], e["shape"][3]):
                if p and (p.startswith("?") or (ever and p not in ever)):
                    bad.append((e["shape"], p))
        if bad:
            v.append(Violation("path-name", f"C19:path-does-not-name-entry:{run.w['root_kind']}:{run.w['spelling']}:{run.w.get('backend', 'inotify')}", f"{bad[:3]} with root {run.w}; ops={run.case['ops']}"))
        return v


EVENT_CLASSES = ["FileCreatedEvent", "FileDeletedEvent", "FileModifiedEvent", "FileMovedEvent", "FileClosedEvent", "FileClosedNoWriteEvent", "FileOpenedEvent",
                 "DirCreatedEvent", "DirDeletedEvent", "DirModifiedEvent", "DirMovedEvent"]
BASE_CLASSES = ["FileSystemEvent", "FileSystemMovedEvent"]


def _collapse(seq):
    out = []
    for x in seq:
        if not out or out[-1] != x:
            out.append(x)
    return out


class C11(FsScenario):
    nested_share = 0  # twin / colliding-name configurations keep a single extra variable
    prop = "C11"
    design_ref = "DESIGN.md 4/C11"
    rule = ("FS-world with twin watches on one observer: (root, flags, filter=None) and (root, flags, filter=F); F cycles with the run index through every concrete event class, both base "
            "classes, all pairs and random larger subsets; histories of C01 (70% paced); distinct = distinct (history, filter, interleaving) digests; non-trivial = pre-emption taken or fault fired")
    level_text = ("Filter relation checked where it is schedule-independent: per paced operation the filtered stream equals the unfiltered stream restricted to instances of F (after collapsing "
                  "adjacent identical events); every filtered event is an instance of F and justified by the history; with a deletion class in F a move out is reported as deleted; probes "
                  "in directories created or moved in after start are reported through the filtered watch when F contains the class the probe produces; with created/deleted/moved classes in F "
                  "the filtered stream passes the C01 replay.")
    level_note = C01.level_note
    paced_share = 0.7
    nonrec_share = 0.15
    full_share = 0.2

    def filter_for(self, idx, rng):
        singles = [[c] for c in EVENT_CLASSES + BASE_CLASSES] + [[]]  # incl. the empty filter, which accepts nothing
        pairs = [[a, b] for i, a in enumerate(EVENT_CLASSES + BASE_CLASSES) for b in (EVENT_CLASSES + BASE_CLASSES)[i + 1:]]
        space = singles + pairs
        k = idx % (len(space) + 30)
        if k < len(space):
            return space[k]
        return sorted(rng.sample(EVENT_CLASSES, rng.randrange(3, 8)))

    def gen_case(self, seed, tier, idx):
        case = super().gen_case(seed, tier, idx)
        case["watch"]["twin_filter"] = self.filter_for(idx, random.Random(f"{seed}:filter"))
        F = case["watch"]["twin_filter"]
        drng = random.Random(f"{seed}:directed")
        if any("Deleted" in c for c in F) and drng.random() < 0.5 and not case.get("unpaced"):
            # directed: a filter that asks for deletions must still see entries that leave by a move out of the tree
            m = fm.Model()
            for op in case["pre"] + case["ops"]:
                fm.apply(m, op)
            m.drain()
            cands = sorted(q for q in m.t if fm.is_under(q, "root") and q != "root" and m.kind(q) in ("f", "d"))
            if cands:
                extra = [["drain"], ["moveout", drng.choice(cands), "o9"], ["drain"]]
                kept, _ = fm.revalidate(case["pre"], case["ops"] + extra, paced=True, paced_out=self.paced_out)
                if len(kept) == len(case["ops"]) + len(extra):
                    case["ops"] = kept
        if drng.random() < 0.06:
            # directed: one name is moved away twice with nothing in between that a narrow kernel mask lets through
            # (the kernel merges equal consecutive events without looking at the cookie)
            x, y = drng.sample(["a", "b", "c"], 2)
            case["pre"] = [["mkfile", f"root/{x}"]]
            case["ops"] = [["moveout", f"root/{x}", "o1"], ["mkfile", f"root/{x}"], ["rename", f"root/{x}", f"root/{y}"]] + ([["drain"]] if drng.random() < 0.5 else [])
            case["paced"] = False
            case.pop("unpaced", None)
            case["watch"]["recursive"] = drng.random() < 0.3
            case["watch"].pop("nested", None)
            case["watch"]["twin_filter"] = drng.choice([["FileMovedEvent"], ["FileSystemMovedEvent"], ["FileModifiedEvent", "FileSystemMovedEvent"], ["FileMovedEvent", "FileDeletedEvent"], ["DirModifiedEvent", "FileMovedEvent"]])
        orng = random.Random(f"{seed}:other-filter")
        if orng.random() < 0.35:
            # a bystander: a third watch on the same directory with another filter (filters are per watch, not per observer)
            case["watch"]["other_filter"] = self.filter_for(orng.randrange(10_000), orng)
        return case

    def judge(self, run, res, sim, verdict):
        import watchdog.events as wev

        v = generic_violations("C11", sim, verdict, res)
        if not res.get("done"):
            return v
        F = run.w["twin_filter"]
        classes = tuple(getattr(wev, n) for n in F)
        fname = "+".join(F)

        def passes(e):
            return isinstance(e["ev"], classes)

        # (ii) every filtered event is an instance of F and is sound
        for e in run.events:
            if e["h"] == 1 and e["phase"] == "ops" and not passes(e):
                v.append(Violation("filter", "C11:filtered-watch-delivered-non-member", f"{e['shape']} is not an instance of {F}"))
                break
        F2 = run.w.get("other_filter")
        if F2 is not None:
            classes2 = tuple(getattr(wev, n) for n in F2)
            for e in run.events:
                if e["h"] == 3 and not isinstance(e["ev"], classes2):
                    v.append(Violation("filter", "C11:filtered-watch-delivered-non-member:bystander", f"{e['shape']} is not an instance of {F2} (the other filtered watch has {F})"))
                    break
        bad = run.oracle_sound(handler=1)
        if bad:
            v.append(Violation("filter", "C11:filtered-event-unjustified", f"{[b['shape'] for b in bad[:3]]} with filter {F}; ops={run.case['ops']}"))
        # (i) paced operations: filtered == unfiltered restricted to F
        for c in run.contracts:
            if not (c["drained"] and c["clean_start"]):
                continue
            if c["op"][0] in ("burst", "makedirs"):
                # a nested burst races each pipeline's own watch installation: which kernel events each of the two
                # inotify instances sees (in addition to the simulated ones) is schedule-dependent, not comparable
                continue
            un = _collapse([e["shape"] for e in run.events if e["h"] == 0 and e["opi"] == c["opi"] and e["phase"] == "ops" and passes(e)])
            fi = _collapse([e["shape"] for e in run.events if e["h"] == 1 and e["opi"] == c["opi"] and e["phase"] == "ops"])
            if un != fi:
                missing = [x for x in un if x not in fi]
                extra = [x for x in fi if x not in un]
                what = ("missing" if missing else "") + ("extra" if extra else "") + ("" if missing or extra else "order")
                kinds = sorted({f"{'dir' if x[1] else 'file'}-{x[0]}" for x in (missing or extra or un)})
                v.append(Violation("filter", f"C11:filtered!=restricted-unfiltered:{what}", f"filter {F}, op {c['op']}: unfiltered restricted {un} but filtered watch delivered {fi}; history={run.case['ops']}"))
                break
        # (iv) replay of the filtered stream when F contains created, deleted and moved classes of both flavours
        need = {"FileCreatedEvent", "DirCreatedEvent", "FileDeletedEvent", "DirDeletedEvent", "FileMovedEvent", "DirMovedEvent"}
        covered = need <= set(F) or "FileSystemEvent" in F
        if covered and run.backend == "inotify":
            d = run.oracle_replay(res["tree0"], handler=1) if "root" in run.model.t else None
            if d:
                v.append(Violation("filter", "C11:filtered-stream-fails-replay", f"filter {F}: {d}; ops={run.case['ops']}"))
        pr = res.get("probes_filtered")
        if pr:
            v.append(Violation("filter", f"C11:filtered-watch-misses-probe:{fname if len(F) == 1 else 'multi'}", f"filter {F}: probes in {pr} not reported through the filtered watch; ops={run.case['ops']}"))
        return v

    def do_probes(self, run, sim, real):
        """Probe = create + append + delete a file in every directory; the filtered watch must report whatever
        the unfiltered watch reports for it and F accepts."""
        import os

        import watchdog.events as wev

        F = run.w["twin_filter"]
        classes = tuple(getattr(wev, n) for n in F)
        missing = []
        for d in probe_dirs(run, real):
            if not (run.recursive or d == "root"):
                continue
            n0 = len(run.events)
            pp = d + "/" + PROBE
            sim.yield_point("probe")
            with open(run.real(pp), "w"):
                pass
            with open(run.real(pp), "a") as f:
                f.write("x")
            os.unlink(run.real(pp))
            sim.wait_quiescent()
            un = {e["shape"] for e in run.events[n0:] if e["h"] == 0 and isinstance(e["ev"], classes)}
            fi = {e["shape"] for e in run.events[n0:] if e["h"] == 1}
            if un - fi:
                missing.append(d)
        run.res_probes_filtered = missing
        return {"missing": [], "wrong_path": [], "unexpected": [], "filtered_missing": missing}

    def after_ops(self, run, res, sim):
        pass
