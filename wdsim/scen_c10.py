"""C10 - polling reports exactly the diff of successive snapshots and survives races (DESIGN.md 3.4, 4/C10).

Real PollingEmitter / DirectorySnapshot / DirectorySnapshotDiff through the public stat/listdir injection
(exactly what PollingObserverVFS does) on an in-memory VFS and the virtual clock."""
from __future__ import annotations

import copy
import errno
import os
import random
import stat as statmod

from . import prims
from .core import DONE, TICKS
from .scenario import Scenario, Violation, draw_sched, drop_each, key_of, simpler_sched

ROOT = "/vfs/root"
ERRNOS = {"ENOENT": errno.ENOENT, "ENOTDIR": errno.ENOTDIR, "EACCES": errno.EACCES}


class VFS:
    def __init__(self, sim):
        self.sim = sim
        self.nodes = {ROOT: {"kind": "d", "ino": 1, "dev": 7, "mtime": 1000.0, "size": 0}}
        self.next_ino = 2
        self.used_twins = set()
        self.poll = -1  # index of the snapshot walk in progress (0 = baseline at start())
        self.call = 0  # call index inside the current walk
        self.calls_per_poll = {}
        self.fault = None  # (poll, call, errno name)
        self.fault_log = []
        self.racing = False
        self.walk_log = {}

    # ---- tree operations (atomic: no yields)
    def children(self, d):
        pre = d + "/"
        return sorted(p for p in self.nodes if p.startswith(pre) and "/" not in p[len(pre):])

    def subtree(self, p):
        return [q for q in self.nodes if q == p or q.startswith(p + "/")]

    def apply(self, op):
        k = op[0]
        n = self.nodes
        if k == "create_twin":  # an entry on another device that has the inode number of an existing one
            _, p, kind, twin = op
            if p in n or twin not in n or n.get(os.path.dirname(p), {}).get("kind") != "d" or n[twin]["dev"] != 7:
                return False
            if (n[twin]["ino"], 9) in self.used_twins:
                return False  # an identity is never given to a second entry (inode numbers are not recycled in the VFS)
            self.used_twins.add((n[twin]["ino"], 9))
            n[p] = {"kind": kind, "ino": n[twin]["ino"], "dev": 9, "mtime": 1000.0, "size": 1 if kind == "f" else 0}
        elif k == "create":
            _, p, kind = op
            if p in n or n.get(os.path.dirname(p), {}).get("kind") != "d":
                return False
            n[p] = {"kind": kind, "ino": self.next_ino, "dev": 7, "mtime": 1000.0 + 3 * self.next_ino, "size": self.next_ino % 4 if kind == "f" else 0}
            self.next_ino += 1
        elif k == "rotate":  # log rotation through one name: b -> c, then a -> b
            _, a, b, c = op
            if a not in n or b not in n or c in n or a == b or ROOT in (a, b) or any(x.startswith(y + "/") for x in (a, b, c) for y in (a, b) if x != y) or n.get(os.path.dirname(c), {}).get("kind") != "d":
                return False
            return self.apply(["rename", b, c]) and self.apply(["rename", a, b])
        elif k == "swap":  # two entries exchange their names
            _, a, b = op
            if a not in n or b not in n or a == b or ROOT in (a, b) or a.startswith(b + "/") or b.startswith(a + "/"):
                return False
            tmp = a + ".swap-tmp"
            return self.apply(["rename", a, tmp]) and self.apply(["rename", b, a]) and self.apply(["rename", tmp, b])
        elif k == "delete":
            if op[1] not in n or op[1] == ROOT:
                return False
            for q in self.subtree(op[1]):
                del n[q]
        elif k == "rename":
            _, s, d = op
            if s not in n or s == ROOT or d in n or d == s or d.startswith(s + "/") or n.get(os.path.dirname(d), {}).get("kind") != "d":
                return False
            for q in sorted(self.subtree(s)):
                n[d + q[len(s):]] = n.pop(q)
        elif k == "modify":
            if op[1] not in n:
                return False
            n[op[1]]["mtime"] += 1.0
            if n[op[1]]["kind"] == "f":
                n[op[1]]["size"] += op[2] if len(op) > 2 else 0
        elif k == "replace":  # same path, new inode (and possibly other kind)
            _, p, kind = op
            if p not in n or p == ROOT:
                return False
            for q in self.subtree(p):
                del n[q]
            n[p] = {"kind": kind, "ino": self.next_ino, "dev": 7, "mtime": 1000.0, "size": 0}
            self.next_ino += 1
        elif k == "recycle":  # an entry is removed and its inode number goes to a new entry of the OTHER kind (ext4 does that at once)
            _, old, new = op
            if old not in n or old == ROOT or new in n or self.children(old) or new.startswith(old + "/") or n.get(os.path.dirname(new), {}).get("kind") != "d" or n[old]["dev"] != 7:
                return False
            ent = n.pop(old)
            kind = "d" if ent["kind"] == "f" else "f"
            n[new] = {"kind": kind, "ino": ent["ino"], "dev": ent["dev"], "mtime": ent["mtime"] + 2.0, "size": 3 if kind == "f" else 0}
        elif k == "rmroot":
            for q in list(n):
                del n[q]
        else:
            raise AssertionError(op)
        return True

    def state(self):
        return {p: (v["ino"], v["dev"], v["kind"], v["mtime"], v["size"]) for p, v in self.nodes.items()}

    # ---- the injected functions
    def _enter(self, what, path):
        if what == "stat" and path == ROOT:
            self.poll += 1
            self.call = 0
            self.walk_log[self.poll] = []
        if self.racing:
            self.sim.yield_point("vfs")
        i = self.call
        self.call += 1
        self.calls_per_poll[self.poll] = self.call
        self.walk_log[self.poll].append((what, path))
        f = self.fault
        if f is not None and f[0] == self.poll and f[1] == i:
            self.sim.fault_fired(f"vfs:{what}:{f[2]}")
            self.fault_log.append((self.poll, i, what, path, f[2]))
            raise OSError(ERRNOS[f[2]], os.strerror(ERRNOS[f[2]]), path)

    def stat(self, path):
        self._enter("stat", path)
        v = self.nodes.get(path)
        if v is None:
            raise FileNotFoundError(errno.ENOENT, "No such file or directory", path)
        mode = (statmod.S_IFDIR | 0o755) if v["kind"] == "d" else (statmod.S_IFREG | 0o644)
        return os.stat_result((mode, v["ino"], v["dev"], 1, 0, 0, v["size"], v["mtime"], v["mtime"], v["mtime"]))

    def listdir(self, path):
        self._enter("listdir", path)
        v = self.nodes.get(path)
        if v is None:
            raise FileNotFoundError(errno.ENOENT, "No such file or directory", path)
        if v["kind"] != "d":
            raise NotADirectoryError(errno.ENOTDIR, "Not a directory", path)
        return [_Entry(os.path.basename(c)) for c in self.children(path)]


class _Entry:
    __slots__ = ("name",)

    def __init__(self, name):
        self.name = name


def effective_state(state, recursive, fault):
    """What a fault-tolerant walk sees: fault = (what, path) of the failing call or None.
    Returns None when the snapshot as a whole fails (root gone)."""
    if ROOT not in state:
        return None
    hidden = set()
    empty = set()
    if fault is not None:
        what, path, en = fault
        if what == "stat":
            if path == ROOT:
                return None
            hidden.add(path)
        else:
            if en == "EACCES" and path == ROOT:
                return None
            empty.add(path)
    out = {}
    for p, v in state.items():
        if any(p == h or p.startswith(h + "/") for h in hidden):
            continue
        if any(p.startswith(e + "/") for e in empty):
            continue
        if not recursive and p != ROOT and os.path.dirname(p) != ROOT:
            continue
        # entries below a path that is not a directory cannot exist; below a missing parent neither (tree is consistent)
        out[p] = v
    return out


def ref_diff(prev, cur):
    """Independent reference diff over (inode, device) identity -> multiset of event shapes."""
    ev = []
    pino = {(v[0], v[1]): p for p, v in prev.items()}
    cino = {(v[0], v[1]): p for p, v in cur.items()}
    for p, v in prev.items():
        ident = (v[0], v[1])
        isd = v[2] == "d"
        if ident in cino and cur[cino[ident]][2] == v[2]:  # a rename cannot change the kind: a re-used inode number of the other kind is no move
            q = cino[ident]
            w = cur[q]
            changed = (v[3], v[4]) != (w[3], w[4])
            if q != p:
                ev.append(("moved", isd, p, q))
                if changed:
                    ev.append(("modified", isd, p, ""))
            elif changed:
                ev.append(("modified", isd, p, ""))
        else:
            ev.append(("deleted", isd, p, ""))
    for q, w in cur.items():
        if (w[0], w[1]) not in pino or prev[pino[(w[0], w[1])]][2] != w[2]:
            ev.append(("created", w[2] == "d", q, ""))
    return ev


POLL_FILTERS = [["FileSystemMovedEvent"], ["FileSystemEvent"], ["FileCreatedEvent", "DirDeletedEvent"], ["DirModifiedEvent", "FileMovedEvent"], ["FileModifiedEvent"],
                ["FileSystemMovedEvent", "DirCreatedEvent"], ["DirMovedEvent", "FileDeletedEvent"], []]


def accepted(filt, shape):
    """isinstance semantics of an event filter over an event shape (type, is_directory, src, dest)."""
    if filt is None:
        return True
    cls = ("Dir" if shape[1] else "File") + shape[0].capitalize() + "Event"
    return cls in filt or "FileSystemEvent" in filt or (shape[0] == "moved" and "FileSystemMovedEvent" in filt)


class C10(Scenario):
    prop = "C10"
    level = "fault_enumeration"
    design_ref = "DESIGN.md 3.4, 4/C10"
    rule = ("mode A (exact, 75%; a fifth of these with an event filter on the watch - concrete classes, base classes, the empty filter - and the reference restricted accordingly): VFS histories over names {a,b,c} depth<=3 (create/delete/rename/modify/replace inode or kind/rotate/swap/twin identity on another device/recycle = an inode number passes to a new entry of the other kind/remove root) applied only between polls; one failure "
            "(ENOENT/ENOTDIR/EACCES) injected at the k-th stat/listdir call of one poll's walk, k cycling with the run index over every call position of that walk (16 consecutive run indices share "
            "one history); recursive and non-recursive; mode B (racing, 25%): the mutator interleaves with the walk at every VFS call; distinct = distinct (history, fault position, errno, "
            "interleaving); non-trivial = a fault fired, or a racing mutation landed inside a walk, or a pre-emption was taken; 15% of the runs step the wall clock by +-0.5/1/3 intervals between and during polls")
    level_text = ("Mode A: per poll the delivered events equal, as a multiset with classes and paths, the independent reference diff between the previous and the new effective state (fault effects "
                  "as the statement says: failed stat => entry and subtree absent, failed listdir => directory present but empty, failure on the root => root gone), deletions of a kind before "
                  "creations of that kind, nothing when equal, baseline = state at start(); root gone => exactly one DirDeletedEvent(root) and the emitter task finishes. Mode B: no exception, no "
                  "thread death, and after the mutator stops the cumulative replay of all events equals the VFS tree within two polls.")
    level_note = "fault positions are enumerated completely per sampled history (every call index of the faulted walk); histories are sampled"
    components = {"real": ["watchdog.observers.polling.PollingEmitter", "watchdog.utils.dirsnapshot.DirectorySnapshot/DirectorySnapshotDiff", "watchdog.observers.api (BaseObserver, EventEmitter)"],
                  "simulated": ["in-memory VFS behind the public stat/listdir parameters", "virtual clock (poll timer)", "thread scheduling"]}
    assumptions = ["every inode has one path in the VFS (no hard links)", "moved+modified entries: a modified event is accepted under the old or the new path"]
    budget = {"quick": 20, "thorough": 420, "minimise": 60}

    def gen_case(self, seed, tier, idx):
        group = idx // 16
        k = idx % 16
        rng = random.Random(f"{seed - idx}:{group}:ops")
        cfg = random.Random(f"{seed - idx}:{group}:cfg")
        names = ["a", "b", "c"]
        racing = cfg.random() < 0.25
        recursive = cfg.random() < 0.8
        # build histories on a scratch VFS model
        v = VFS(None)
        pre = []
        rounds = []

        def rand_op():
            dirs = [p for p, n in v.nodes.items() if n["kind"] == "d" and p.count("/") < 5]
            ents = [p for p in v.nodes if p != ROOT]
            r = rng.random()
            if not racing and ents and rng.random() < 0.04:
                return ["recycle", rng.choice(ents), rng.choice(dirs) + "/" + rng.choice(names)]
            if r < 0.04 and ents:
                return ["create_twin", rng.choice(dirs) + "/" + rng.choice(names), rng.choice("fd"), rng.choice(ents)]
            if r < 0.35 or not ents:
                return ["create", rng.choice(dirs) + "/" + rng.choice(names), rng.choice("fd")]
            if r < 0.5:
                return ["delete", rng.choice(ents)]
            if r < 0.7:
                return ["rename", rng.choice(ents), rng.choice(dirs) + "/" + rng.choice(names)]
            if r < 0.84:
                return ["modify", rng.choice(ents + [ROOT]), rng.choice([0, 1])]
            if r < 0.9 and len(ents) >= 2:
                a, b = rng.sample(ents, 2)
                return ["rotate", a, b, rng.choice(dirs) + "/" + rng.choice(names)] if rng.random() < 0.6 else ["swap", a, b]
            return ["replace", rng.choice(ents), rng.choice("fd")]

        for _ in range(rng.randrange(0, 7)):
            op = rand_op()
            if op[0] in ("create", "create_twin") and v.apply(op):
                pre.append(op)
        between = []
        if rng.random() < 0.3:
            op = rand_op()
            if v.apply(op):
                between.append(op)
        npolls = rng.randrange(1, 5)
        for _ in range(npolls):
            ops = []
            for _ in range(rng.choice([0, 1, 1, 2, 3])):
                op = rand_op()
                if v.apply(op):
                    ops.append(op)
            rounds.append(ops)
        if rng.random() < 0.15:
            rounds.append([["rmroot"]])
        fault = None
        if not racing and k > 0:
            fault = {"poll": 1 + (group % len(rounds)), "call": k - 1, "errno": ["ENOENT", "ENOTDIR", "EACCES"][(group // 3 + k) % 3]}
        sched = draw_sched(cfg, line=racing, pct_k=800, step_cap=200_000, horizon=3600)
        frng = random.Random(f"{seed}:clock")
        if frng.random() < 0.15:
            # wall-clock steps between and during polls: the poll cadence is a matter of elapsed time
            span = (len(rounds) + 1) * TICKS
            sched["clock_jumps"] = [[frng.randrange(0, span + 1), frng.choice([1, -1]) * frng.choice([TICKS // 2, TICKS, 3 * TICKS])] for _ in range(frng.choice([1, 1, 2]))]
        case = {"pre": pre, "between": between, "rounds": rounds, "recursive": recursive, "racing": racing, "fault": fault, "interval": 1.0, "sched": sched}
        frng = random.Random(f"{seed}:filter")
        if not racing and frng.random() < 0.2:
            # the polling watch carries an event filter (concrete and base classes): it delivers exactly the accepted part of the diff
            case["filter"] = frng.choice(POLL_FILTERS)
        return case

    def shrink(self, case):
        if case.get("filter"):
            c = copy.deepcopy(case)
            del c["filter"]
            yield c
        for ri in range(len(case["rounds"]) - 1, -1, -1):
            for cand in drop_each(case["rounds"][ri]):
                c = copy.deepcopy(case)
                c["rounds"][ri] = cand
                yield c
            if not case["rounds"][ri] and len(case["rounds"]) > 1:
                c = copy.deepcopy(case)
                del c["rounds"][ri]
                yield c
        for cand in drop_each(case["pre"]):
            c = copy.deepcopy(case)
            c["pre"] = cand
            yield c
        if case["fault"]:
            c = copy.deepcopy(case)
            c["fault"] = None
            yield c
        yield from simpler_sched(case)

    def run_case(self, case, sched_seed, trace=None):
        import functools

        import watchdog.events as wev
        import watchdog.observers.api as api
        import watchdog.observers.polling as pol
        import watchdog.utils.dirsnapshot as ds

        hist = {"events": [], "states": {}, "mut_times": []}
        holder = {}
        interval = case["interval"]

        def install(p, sim):
            prims.install_base(p, modules_threading=[api, pol], modules_time=[])

        def main():
            sim = prims.cur_sim()
            vfs = VFS(sim)
            holder["vfs"] = vfs
            for op in case["pre"]:
                vfs.apply(op)
            f = case["fault"]
            if f:
                vfs.fault = (f["poll"], f["call"], f["errno"])
            vfs.racing = case["racing"]

            class Em(pol.PollingEmitter):
                def __hash__(self):
                    return 1

                def __eq__(self, other):
                    return self is other

            class H(wev.FileSystemEventHandler):
                def __hash__(self):
                    return 1

                def on_any_event(self, e):
                    sh = (e.event_type, bool(e.is_directory), e.src_path, getattr(e, "dest_path", "") or "")
                    hist["events"].append((sim.now, sh))

            obs = api.BaseObserver(functools.partial(Em, stat=vfs.stat, listdir=vfs.listdir), timeout=interval)
            filt = case.get("filter")
            obs.schedule(H(), ROOT, recursive=case["recursive"], event_filter=None if filt is None else [getattr(wev, n) for n in filt])
            for op in case.get("between", []):  # the baseline is the tree at start(), not at schedule()
                vfs.apply(op)
            hist["states"][0] = vfs.state()
            obs.start()
            t0 = sim.now
            hist["t0"] = t0
            half = interval / 2
            if not case["racing"]:
                # mutate at t0 + j + 1/2, polls happen at t0 + i (i >= 1)
                for j, ops in enumerate(case["rounds"]):
                    sim.sleep(half if j == 0 else interval)
                    for op in ops:
                        vfs.apply(op)
                        sim.rec("mutate", op)
                    hist["states"][j + 1] = vfs.state()
                sim.sleep(interval)  # poll len(rounds) has happened
                sim.sleep(1.0 / TICKS)
            else:
                for j, ops in enumerate(case["rounds"]):
                    for op in ops:
                        sim.yield_point("mut")
                        vfs.apply(op)
                        sim.rec("mutate", op)
                        if vfs.call and vfs.poll >= 0 and vfs.calls_per_poll.get(vfs.poll) and sim.now > t0:
                            sim.probe("mutation_during_walk")
                    sim.sleep(interval * 0.37)
                hist["final_state"] = vfs.state()
                sim.sleep(2 * interval + 1.0 / TICKS)
                sim.sleep(1.0 / TICKS)
            hist["alive_before_stop"] = [t.name for t in sim.tasks if t.kind == "lib" and t.state != DONE]
            obs.stop()
            obs.join()
            hist["alive"] = [t.name for t in sim.tasks if t.kind == "lib" and t.state != DONE]

        def finish(sim, verdict):
            v = []
            if verdict is not None:
                v.append(Violation(verdict[0], f"C10:{verdict[0]}", str(verdict[1])))
                return v, {}
            for u in sim.uncaught:
                if u["kind"] != "actor":
                    fn = u["where"][-1][2] if u["where"] else "?"
                    v.append(Violation("uncaught", f"C10:uncaught:{u['task'].split('#')[0]}:{u['exc']}:{fn}", str(u)))
            if hist.get("alive"):
                v.append(Violation("alive", "C10:thread-alive-after-stop", str(hist["alive"])))
            if not v:
                v += self.oracle_racing(case, hist) if case["racing"] else self.oracle_exact(case, hist, holder["vfs"], sim)
            vfs = holder["vfs"]
            return v, {"sample": {"rounds": case["rounds"], "fault": case["fault"], "events": hist["events"][:20]},
                       "hist_key": key_of([case["pre"], case.get("between"), case["rounds"], case["recursive"], case["fault"], case["racing"]]), "nontrivial": bool(vfs.fault_log)}

        return self.simulate(case, sched_seed, trace, install, main, finish)

    # ------------------------------------------------------------------ oracles
    def oracle_exact(self, case, hist, vfs, sim):
        v = []
        t0 = hist["t0"]
        iv = int(case["interval"] * TICKS)
        per_poll = {}
        for t, sh in hist["events"]:
            i, rem = divmod(t - t0, iv)
            if rem != 0:
                v.append(Violation("timing", "C10:event-delivered-between-polls", f"event {sh} at offset {t - t0}"))
                return v
            per_poll.setdefault(i, []).append(sh)
        rec = case["recursive"]
        prev = effective_state(hist["states"][0], rec, None)
        stopped = False
        npolls = len(case["rounds"])
        for i in range(1, npolls + 1):
            got = per_poll.get(i, [])
            if stopped:
                if got:
                    v.append(Violation("after-stop", "C10:events-after-root-gone", f"poll {i}: {got}"))
                continue
            raw = hist["states"][i]
            fl = [f for f in vfs.fault_log if f[0] == i]
            fault = (fl[0][2], fl[0][3], fl[0][4]) if fl else None
            cur = effective_state(raw, rec, fault)
            if cur is None:
                if got != [e for e in [("deleted", True, ROOT, "")] if accepted(case.get("filter"), e)]:
                    v.append(Violation("root-gone", "C10:root-gone-events", f"poll {i}: root gone (fault={fault}) but delivered {got}"))
                stopped = True
                continue
            exp = [e for e in ref_diff(prev, cur) if accepted(case.get("filter"), e)]
            ok = self.same_multiset(exp, got)
            if not ok:
                missing = [e for e in exp if e not in got and not (e[0] == "modified" and any(g[0] == "modified" and g[1] == e[1] for g in got))]
                extra = [g for g in got if g not in exp and g[0] != "modified"]
                what = ("missing" if len(got) < len(exp) or missing else "") + ("extra" if len(got) > len(exp) or extra else "")
                kinds = sorted({f"{'dir' if x[1] else 'file'}-{x[0]}" for x in (missing + extra) or exp or got})
                v.append(Violation("diff", f"C10:poll-events!=reference-diff:{what or 'different'}:{'fault' if fault else 'nofault'}:{','.join(kinds[:2])}",
                                   f"poll {i} (fault={fault}, recursive={rec}): expected {sorted(exp)} got {sorted(got)}; rounds={case['rounds']} pre={case['pre']}"))
                return v
            for isd in (False, True):
                dpos = [n for n, g in enumerate(got) if g[0] == "deleted" and g[1] == isd]
                cpos = [n for n, g in enumerate(got) if g[0] == "created" and g[1] == isd]
                if dpos and cpos and max(dpos) > min(cpos):
                    v.append(Violation("order", "C10:created-before-deleted", f"poll {i}: {got}"))
            prev = cur
        if stopped and any(n.startswith("Em") for n in hist["alive_before_stop"]):
            v.append(Violation("root-gone", "C10:emitter-alive-after-root-gone", str(hist["alive_before_stop"])))
        extra_polls = [i for i in per_poll if i > npolls or i < 1]
        if extra_polls:
            v.append(Violation("timing", "C10:events-outside-polls", f"{extra_polls}"))
        return v

    @staticmethod
    def same_multiset(exp, got):
        g = list(got)
        for e in exp:
            if e in g:
                g.remove(e)
                continue
            if e[0] == "modified":
                # moved + modified: accepted under the old or the new path
                alt = [x for x in g if x[0] == "modified" and x[1] == e[1]]
                moved_to = [m[3] for m in exp if m[0] == "moved" and m[2] == e[2]]
                hit = [x for x in alt if x[2] in moved_to]
                if hit:
                    g.remove(hit[0])
                    continue
            return False
        return not g

    def oracle_racing(self, case, hist):
        v = []
        t = {p: s[2] for p, s in hist["states"][0].items()}
        if not case["recursive"]:
            t = {p: k for p, k in t.items() if p == ROOT or os.path.dirname(p) == ROOT}

        def rm(p):
            for q in [q for q in t if q == p or q.startswith(p + "/")]:
                del t[q]

        # Each poll's events are the entry-by-entry difference of two concrete snapshots (every entry whose path changed
        # has its own moved event, every vanished entry its own deleted event), and the statement fixes no order across
        # kinds inside one poll.  So a poll's batch is applied as a set operation:
        #   tree = (tree - deleted - move sources) + created + move destinations
        # which telescopes to the last snapshot iff every poll reported exactly its difference.
        batches = {}
        for tm, e in hist["events"]:
            batches.setdefault(tm, []).append(e)
        for tm in sorted(batches):
            b = batches[tm]
            for et, isd, s, d in b:
                if et == "deleted" or et == "moved":
                    t.pop(s, None)
            for et, isd, s, d in b:
                if et == "created":
                    t[s] = "d" if isd else "f"
                elif et == "moved":
                    t[d] = "d" if isd else "f"
        final = {p: s[2] for p, s in hist["final_state"].items()}
        if not case["recursive"]:
            final = {p: k for p, k in final.items() if p == ROOT or os.path.dirname(p) == ROOT}
        if ROOT not in final:
            if not any(e[1] == ("deleted", True, ROOT, "") for e in hist["events"]):
                v.append(Violation("root-gone", "C10:racing:root-gone-not-reported", str(hist["events"][-3:])))
            return v
        if t != final:
            diff = sorted(set(t.items()) ^ set(final.items()))
            v.append(Violation("replay", "C10:racing:cumulative-replay!=tree", f"{diff[:6]}; rounds={case['rounds']}"))
        return v
