"""Kernel shim (DESIGN.md 2.3): real Linux inotify as a serialised component behind virtual descriptors.

Every call is a yield point; descriptors are virtual (never reused) with an open->closed state machine; a
seeded fault plan injects short reads, failing inotify_init/add_watch and vanish faults; calls are logged.
"""
from __future__ import annotations

import ctypes
import errno
import os as _os
import select as _select

from . import prims

_REAL = {}


def _real_calls():
    if not _REAL:
        import watchdog.observers.inotify_c as ic

        _REAL.update(init=ic.inotify_init, add=ic.inotify_add_watch, rm=ic.inotify_rm_watch)
    return _REAL


class Proxy:
    """Forwards everything to the real module except the overridden names."""

    def __init__(self, real, **over):
        self.__dict__["_r"] = real
        self.__dict__.update(over)

    def __getattr__(self, n):
        return getattr(self._r, n)


class KShim:
    def __init__(self, sim, top=b"", faults=None):
        self.sim = sim
        self.top = top  # bytes prefix stripped from logged paths
        self.fds = {}  # vfd -> [realfd, kind, state]
        self.next = 1000
        self.violations = []  # descriptor misuse: (op, vfd, kind)
        self.calls = {"init": 0, "add": 0, "rm": 0, "read": 0, "write": 0, "close": 0, "poll": 0, "pipe": 0}
        # fault plan: {"init_fail": errno|None, "add_fail": {k: errno}, "short_read": policy list, "vanish": {k: True}}
        self.faults = faults or {}
        self.read_idx = 0
        self.vanish_hook = None  # callable(path bytes) invoked before add_watch when planned
        self.pre_add_hook = None
        self.stale_add_after_close = 0
        self.failed_adds = []

    # ---- descriptor table
    def _new(self, real, kind):
        v = self.next
        self.next += 1
        self.fds[v] = [real, kind, "open"]
        return v

    def _chk(self, v, op):
        e = self.fds.get(v)
        if e is None or e[2] != "open":
            kind = e[1] if e else "unknown"
            if op in ("read", "write", "close", "poll", "rm_watch"):  # (add_watch after close is met on the unchanged tree and harmless: probe only)
                self.violations.append((op, kind, "after-close" if e else "unknown-fd"))
            return None
        return e[0]

    def open_fds(self):
        return sorted((v, e[1]) for v, e in self.fds.items() if e[2] == "open")

    def cleanup(self):
        for e in self.fds.values():
            if e[2] == "open":
                try:
                    _os.close(e[0])
                except OSError:
                    pass
                e[2] = "cleaned"

    def _rel(self, path):
        if isinstance(path, str):
            path = _os.fsencode(path)
        if self.top and path.startswith(self.top):
            return path[len(self.top):]
        return path

    # ---- inotify
    def inotify_init(self):
        self.sim.yield_point("k:init")
        self.calls["init"] += 1
        err = self.faults.get("init_fail")
        if err:
            self.sim.fault_fired(f"inotify_init:{errno.errorcode.get(err, err)}")
            ctypes.set_errno(err)
            self.sim.rec("k:init", -1, err)
            return -1
        r = _real_calls()["init"]()
        if r < 0:
            return -1
        v = self._new(r, "inotify")
        self.sim.rec("k:init", v)
        return v

    def inotify_add_watch(self, fd, path, mask):
        self.sim.yield_point("k:add")
        k = self.calls["add"]
        self.calls["add"] += 1
        r = self._chk(fd, "add_watch")
        if r is None:
            self.stale_add_after_close += 1
            self.sim.probe("add_watch_after_close")
            ctypes.set_errno(errno.EBADF)
            return -1
        err = self.faults.get("add_fail", {}).get(str(k))
        if err:
            self.sim.fault_fired(f"inotify_add_watch:{errno.errorcode.get(err, err)}")
            self.failed_adds.append(path)
            ctypes.set_errno(err)
            self.sim.rec("k:add", self._rel(path), -1, err)
            return -1
        if self.vanish_hook is not None and self.faults.get("vanish", {}).get(str(k)):
            self.vanish_hook(path)
        wd = _real_calls()["add"](r, path, mask)
        if wd < 0:
            e = ctypes.get_errno()
            self.sim.rec("k:add", self._rel(path), -1, e)
            ctypes.set_errno(e)
        else:
            self.sim.rec("k:add", self._rel(path), wd)
        return wd

    def inotify_rm_watch(self, fd, wd):
        self.sim.yield_point("k:rm")
        self.calls["rm"] += 1
        r = self._chk(fd, "rm_watch")
        if r is None:
            ctypes.set_errno(errno.EBADF)
            return -1
        res = _real_calls()["rm"](r, wd)
        self.sim.rec("k:rm", wd, res)
        return res

    # ---- os
    def pipe(self):
        self.sim.yield_point("k:pipe")
        self.calls["pipe"] += 1
        err = self.faults.get("pipe_fail")
        if err:
            self.sim.fault_fired(f"pipe:{errno.errorcode.get(err, err)}")
            raise OSError(err, _os.strerror(err))
        r, w = _os.pipe()
        return self._new(r, "pipe_r"), self._new(w, "pipe_w")

    def read(self, fd, n):
        self.sim.yield_point("k:read")
        self.calls["read"] += 1
        r = self._chk(fd, "read")
        if r is None:
            raise OSError(errno.EBADF, "Bad file descriptor (virtual)")
        if self.fds[fd][1] == "inotify":
            pol = self.faults.get("short_read")
            if pol:
                size = pol[self.read_idx % len(pol)]
                self.read_idx += 1
                if size and size < n:
                    # the kernel returns EINVAL when the buffer cannot hold the next record; grow until it fits
                    while True:
                        try:
                            data = _os.read(r, size)
                            self.sim.fault_fired("short_read")
                            self.sim.rec("k:read", len(data))
                            return data
                        except OSError as e:
                            if e.errno != errno.EINVAL:
                                raise
                            size *= 2
                            if size >= n:
                                break
        data = _os.read(r, n)
        if self.fds[fd][1] == "inotify" and (self.calls["read"] - 1) in self.faults.get("overflow_marks", ()):
            # the kernel's queue-overflow marker (wd -1, IN_Q_OVERFLOW) behind the records of this read.  Only the marker:
            # nothing is dropped, so every oracle keeps its full strength - what is exercised is that the marker itself
            # is skipped and harms nothing
            import struct

            data += struct.pack("iIII", -1, 0x00004000, 0, 0)
            self.sim.fault_fired("overflow_marker")
        self.sim.rec("k:read", len(data))
        return data

    def write(self, fd, b):
        self.sim.yield_point("k:write")
        self.calls["write"] += 1
        r = self._chk(fd, "write")
        if r is None:
            raise OSError(errno.EBADF, "Bad file descriptor (virtual)")
        return _os.write(r, b)

    def close(self, fd):
        self.sim.yield_point("k:close")
        self.calls["close"] += 1
        r = self._chk(fd, "close")
        if r is None:
            raise OSError(errno.EBADF, "Bad file descriptor (virtual)")
        self.fds[fd][2] = "closed"
        _os.close(r)
        self.sim.rec("k:close", fd)


class SimPoll:
    def __init__(self, k):
        self.k = k
        self.reg = []

    def register(self, fd, mask):
        self.reg.append((fd, mask))

    def _poll0(self, record):
        p = _select.poll()
        m = {}
        for v, mask in self.reg:
            e = self.k.fds.get(v)
            if e is None or e[2] != "open":
                if record:
                    self.k.violations.append(("poll", e[1] if e else "unknown", "after-close"))
                return [(v, _select.POLLNVAL)]
            p.register(e[0], mask)
            m[e[0]] = v
        return [(m[fd], ev) for fd, ev in p.poll(0)]

    def poll(self, timeout=None):
        s = self.k.sim
        s.yield_point("k:poll")
        self.k.calls["poll"] += 1
        res = self._poll0(True)
        if res:
            return res
        s.block(lambda: bool(self._poll0(False)), None if timeout is None else timeout / 1000.0, why="poll")
        return self._poll0(True)


class WalkOS:
    """os proxy for watchdog.events / watchdog.observers.inotify(_c): walk() yields to the scheduler between
    directories and returns names in sorted order (the listing order of the file system never leaks)."""

    def __init__(self, sim, kshim=None, yield_in_walk=True):
        self.__dict__["_sim"] = sim
        self.__dict__["_k"] = kshim
        self.__dict__["_yield"] = yield_in_walk

    def __getattr__(self, n):
        return getattr(_os, n)

    def walk(self, top, topdown=True, onerror=None, followlinks=False):
        sim = self._sim
        for root, dirs, files in _os.walk(top, topdown=topdown, onerror=onerror, followlinks=followlinks):
            dirs.sort()
            files.sort()
            if self._yield:
                sim.yield_point("walk")
            yield root, dirs, files


def install(p: prims.Patcher, sim, top=b"", faults=None, yield_in_walk=True):
    """Patch the inotify seams (the same ones tests/test_inotify_c.py patches)."""
    import watchdog.events as wev
    import watchdog.observers.inotify as ino
    import watchdog.observers.inotify_c as ic

    _real_calls()
    k = KShim(sim, top, faults)
    p.set(ic, "inotify_init", k.inotify_init)
    p.set(ic, "inotify_add_watch", k.inotify_add_watch)
    p.set(ic, "inotify_rm_watch", k.inotify_rm_watch)
    w = WalkOS(sim, k, yield_in_walk)
    osp = Proxy(_os, read=k.read, write=k.write, close=k.close, pipe=k.pipe, walk=w.walk)
    p.set(ic, "os", osp)
    p.set(ic, "select", Proxy(_select, poll=lambda: SimPoll(k)))
    p.set(wev, "os", w)
    p.set(ino, "os", w)
    return k
