"""API-world (DESIGN.md 3.2): real BaseObserver with scripted emitters, recording handlers and API actors.

Shared by C04, C05, C06 and C13.  Everything the oracles use is the harness's own record: invoke/return
sequence numbers of API calls, the sequence number at which a scripted emitter queued an event, and the
sequence number at which a handler callback started.
"""
from __future__ import annotations

import random

from . import prims
from .core import DONE, TICKS
from .scenario import Violation

FILTERS = [None, ["FileCreatedEvent"], ["FileCreatedEvent", "DirCreatedEvent"], []]  # [] = a filter that accepts nothing
REMOVERS = ("unschedule", "remove_handler", "unschedule_all", "stop")


def spec_key(spec):
    path, rec, filt = spec
    return (path, bool(rec), None if FILTERS[filt] is None else tuple(sorted(FILTERS[filt])))


class ApiRun:
    """One execution of an API-world case under the simulator."""

    def __init__(self, case, observer_factory=None):
        self.case = case
        self.hist = {"calls": [], "queued": [], "callbacks": [], "instances": [], "barriers": [], "markers": []}
        self.observer = None
        self.handlers = []
        self.observer_factory = observer_factory
        self.n_constructed = 0
        self.final = {}

    # ------------------------------------------------------------------ seams
    def modules(self):
        import queue as qmod

        import watchdog.observers.api as api
        import watchdog.utils as wu
        import watchdog.utils.bricks as bricks

        return api, wu, bricks, qmod

    def install(self, p, sim):
        api, wu, bricks, qmod = self.modules()
        prims.install_base(p, modules_threading=[api], modules_time=[])

    def enable_monitoring(self):
        api, wu, bricks, qmod = self.modules()
        prims.enable_monitoring([api, wu, bricks, qmod])

    # ------------------------------------------------------------------ system under test
    def build(self):
        import watchdog.events as wev
        import watchdog.observers.api as api

        run = self
        sim = prims.cur_sim()
        case = self.case
        hist = self.hist

        class ScriptedEmitter(api.EventEmitter):
            def __init__(self, event_queue, watch, *, timeout=1.0, event_filter=None):
                idx = run.n_constructed
                run.n_constructed += 1
                self._idx = idx
                fault = case.get("emitter_faults", {}).get(str(idx))
                key = (watch.path, watch.is_recursive, None if watch.event_filter is None else tuple(sorted(c.__name__ for c in watch.event_filter)))
                self._rec = {"inst": idx, "key": key, "ctor_seq": sim.next_seq(), "fault": fault, "emitter": self, "started": False}
                hist["instances"].append(self._rec)
                sim.rec("emitter-ctor", idx, key, fault)
                if fault == "ctor":
                    sim.fault_fired("emitter_ctor_fail")
                    raise OSError(2, "injected: emitter cannot be created")
                super().__init__(event_queue, watch, timeout=timeout, event_filter=event_filter)
                spec_i = next((i for i, s in enumerate(case["specs"]) if spec_key(s) == key), None)
                self._script = list(case.get("scripts", {}).get(str(spec_i), []))
                self._pos = 0
                self._n = 0

            def __hash__(self):
                return self._idx

            def __eq__(self, other):
                return self is other

            def on_thread_stop(self):
                self._rec["stops"] = self._rec.get("stops", 0) + 1
                self._rec.setdefault("stop_seqs", []).append(sim.next_seq())

            def on_thread_start(self):
                if self._rec["fault"] == "start":
                    sim.fault_fired("emitter_start_fail")
                    raise OSError(28, "injected: emitter cannot be started")
                self._rec["started"] = True
                self._rec["start_seq"] = sim.next_seq()

            def queue_events(self, timeout):
                if self._pos >= len(self._script):
                    self.stopped_event.wait()  # idle until stopped
                    return
                step = self._script[self._pos]
                self._pos += 1
                if step[0] == "sleep":
                    self.stopped_event.wait(step[1] / TICKS)
                    return
                if step[0] == "flood":
                    # a burst the handlers cannot keep up with: the backlog of the observer's queue grows to step[1]
                    for j in range(step[1]):
                        self.queue_event(wev.FileCreatedEvent(f"{self.watch.path}/flood{self._idx}_{j}"))
                    sim.fault_fired("event_flood")
                    return
                if step[0] == "die":
                    # the emitter's own code fails: its thread ends, but stop()/unschedule() must still run its
                    # on_thread_stop() hook (that is where an emitter releases what on_thread_start() acquired)
                    self._rec["died"] = True
                    raise RuntimeError("scripted emitter failure")
                if step[0] == "rep" and self._n >= 2:
                    # an event equal to the one queued before the previous one (X, Y, X): not a *consecutive* duplicate,
                    # so the queue must accept it and every registered handler must get it a second time
                    path = f"{self.watch.path}/i{self._idx}e{self._n - 2}"
                    occ = 1
                else:
                    path = f"{self.watch.path}/i{self._idx}e{self._n}"
                    self._n += 1
                    occ = 0
                ev = wev.FileCreatedEvent(path)
                q = {"inst": self._idx, "key": self._rec["key"], "path": path, "occ": occ, "q0": sim.next_seq()}
                hist["queued"].append(q)
                self.queue_event(ev)
                q["q1"] = sim.next_seq()
                sim.rec("queued", path)

        class RecHandler(wev.FileSystemEventHandler):
            def __init__(self, hid):
                self.hid = hid
                self.ncalls = 0

            def __hash__(self):
                return self.hid

            def __eq__(self, other):
                return self is other

            def on_any_event(self, event):
                cb = {"h": self.hid, "path": event.src_path, "c0": sim.next_seq(), "type": type(event).__name__}
                hist["callbacks"].append(cb)
                sim.rec("callback", self.hid, event.src_path)
                n = self.ncalls
                self.ncalls += 1
                for hs in case.get("hscripts", []):
                    if hs[0] == self.hid and hs[1] == n:
                        run.do_op(f"H{self.hid}", hs[2], reentrant=True)
                cb["c1"] = sim.next_seq()

        self.emitter_class = ScriptedEmitter
        if self.observer_factory is not None:
            self.observer = self.observer_factory(ScriptedEmitter)
        else:
            self.observer = api.BaseObserver(ScriptedEmitter)
        self.handlers = [RecHandler(i) for i in range(case["handlers"])]
        self.api = api

    def watch_for(self, spec_i):
        import watchdog.events as wev

        path, rec, filt = self.case["specs"][spec_i]
        f = FILTERS[filt]
        return self.api.ObservedWatch(path, recursive=rec, event_filter=None if f is None else [getattr(wev, n) for n in f])

    # ------------------------------------------------------------------ operations
    def do_op(self, actor, op, reentrant=False):
        """Execute one API operation, recording invoke/return sequence numbers and the outcome."""
        import watchdog.events as wev

        sim = prims.cur_sim()
        obs = self.observer
        kind = op[0]
        if kind == "barrier":
            sim.wait_quiescent()
            self.hist["barriers"].append(sim.next_seq())
            sim.rec("barrier", actor)
            return None
        if kind == "sleep":
            sim.sleep(op[1] / TICKS)
            return None
        rec = {"actor": actor, "op": kind, "args": op[1:], "reentrant": reentrant, "inv": sim.next_seq(), "exc": None}
        if kind in ("schedule", "add_handler", "remove_handler"):
            rec["h"] = op[1]
            rec["spec"] = op[2]
            rec["key"] = spec_key(self.case["specs"][op[2]])
        elif kind == "unschedule":
            rec["spec"] = op[1]
            rec["key"] = spec_key(self.case["specs"][op[1]])
        self.hist["calls"].append(rec)
        try:
            if kind == "schedule":
                path, recu, filt = self.case["specs"][op[2]]
                f = FILTERS[filt]
                obs.schedule(self.handlers[op[1]], path, recursive=recu, event_filter=None if f is None else [getattr(wev, n) for n in f])
            elif kind == "unschedule":
                obs.unschedule(self.watch_for(op[1]))
            elif kind == "add_handler":
                obs.add_handler_for_watch(self.handlers[op[1]], self.watch_for(op[2]))
            elif kind == "remove_handler":
                obs.remove_handler_for_watch(self.handlers[op[1]], self.watch_for(op[2]))
            elif kind == "unschedule_all":
                obs.unschedule_all()
            elif kind == "start":
                obs.start()
            elif kind == "stop":
                obs.stop()
            elif kind == "join":
                obs.join()
            else:
                raise AssertionError(f"unknown op {op}")
        except Exception as e:  # noqa: BLE001 - outcome of a library call
            rec["exc"] = type(e).__name__
            rec["msg"] = str(e)[:120]
        rec["ret"] = sim.next_seq()
        # facts observed at return time (used by C05/C06/C13)
        if kind in REMOVERS or kind == "join":
            rec["alive_at_ret"] = [r["inst"] for r in self.hist["instances"] if r.get("started") and r["emitter"].is_alive()]
        sim.rec("call", actor, kind, op[1:], rec["exc"])
        return rec

    # ------------------------------------------------------------------ history predicates
    def adders(self, h, key):
        return [c for c in self.hist["calls"] if c["op"] in ("schedule", "add_handler") and c.get("h") == h and c.get("key") == key]

    def removers(self, h, key):
        out = []
        for c in self.hist["calls"]:
            if c["op"] == "unschedule" and c.get("key") == key:
                out.append(c)
            elif c["op"] == "remove_handler" and c.get("key") == key and c.get("h") == h:
                out.append(c)
            elif c["op"] in ("unschedule_all", "stop"):
                out.append(c)
        return out

    def certainly_registered(self, h, key, t1, t2):
        rem = self.removers(h, key)
        for a in self.adders(h, key):
            if a.get("exc") or a.get("ret") is None or a["ret"] >= t1:
                continue
            if all((r.get("ret") is not None and r["ret"] < a["inv"]) or r["inv"] > t2 for r in rem):
                return True
        return False

    def certainly_not_registered(self, h, key, t1, t2):
        rem = self.removers(h, key)
        for a in self.adders(h, key):
            if a["inv"] > t2:
                continue
            # need a successful removal certainly after a and completed before t1
            if not any(r.get("exc") is None and r.get("ret") is not None and r["inv"] > (a["ret"] if a.get("ret") is not None else 10**18) and r["ret"] < t1 for r in rem):
                return False
        return True


# ---------------------------------------------------------------------------- oracles
def oracle_c04(run: ApiRun):
    v = []
    h = run.hist
    # an emitter may queue an event equal to an earlier one of its own with a different event in between ("rep"
    # steps): records of one path form a list in queue order; a callback is attributed most leniently
    qall = {}
    for q in h["queued"]:
        qall.setdefault(q["path"], []).append(q)
    seen = {}
    for cb in h["callbacks"]:
        k = (cb["h"], cb["path"])
        seen[k] = seen.get(k, 0) + 1
    dups = [k for k, n in seen.items() if n > len(qall.get(k[1], [None]))]
    if dups:
        v.append(Violation("duplicate", "C04:duplicate-delivery", f"(handler, event) delivered more often than it was queued: {dups[:4]}"))
    # order per (handler, emitter instance)
    last = {}
    for cb in h["callbacks"]:
        qs = [q for q in qall.get(cb["path"], []) if q["q0"] < cb["c0"]]
        if not qs:
            v.append(Violation("invented", "C04:unknown-event", f"callback for an event nobody queued: {cb}"))
            continue
        k = (cb["h"], qs[0]["inst"])
        if k in last and last[k] > qs[-1]["q0"]:
            v.append(Violation("order", "C04:out-of-order", f"handler {cb['h']} got {cb['path']} after a later event of the same watch"))
        last[k] = max(last.get(k, 0), qs[0]["q0"])
    # MUST-NOT: handler certainly not registered for the watch throughout [queued, callback]
    for cb in h["callbacks"]:
        qs = [q for q in qall.get(cb["path"], []) if q["q0"] < cb["c0"]]
        if not qs:
            continue
        q = qs[0]
        if run.certainly_not_registered(cb["h"], q["key"], q["q0"], cb["c0"]):
            never = not run.adders(cb["h"], q["key"])
            sig = "C04:delivered-to-never-registered-handler" if never else "C04:delivered-while-certainly-unregistered"
            v.append(Violation("must-not", sig, f"handler {cb['h']} received {cb['path']} (queued {q['q0']}, callback {cb['c0']}) but was not registered for {q['key']} in that period"))
    # MUST: certainly registered from before the event was queued until the barrier, observer running
    starts = [c for c in h["calls"] if c["op"] == "start" and not c.get("exc") and c.get("ret") is not None]
    stops = [c for c in h["calls"] if c["op"] == "stop"]
    for b in h["barriers"]:
        if not any(s["ret"] < b for s in starts) or any(s["inv"] < b for s in stops):
            continue
        for path, qs in qall.items():
            for hid in range(run.case["handlers"]):
                need = [q for q in qs if q.get("q1") is not None and q["q1"] < b and run.certainly_registered(hid, q["key"], q["q0"], b)]
                if not need:
                    continue
                have = sum(1 for cb in h["callbacks"] if cb["h"] == hid and cb["path"] == path and cb["c0"] <= b)
                if have < len(need):
                    q = need[have]
                    sig = "C04:not-delivered-by-barrier" + (":repeated-after-other-event" if q.get("occ") else "")
                    v.append(Violation("must", sig, f"handler {hid} certainly registered for {q['key']} received {path} {have} time(s) by the barrier at {b} although it was queued {len(need)} time(s) (at {[x['q0'] for x in need]}), never as an immediate repeat"))
    return v


def oracle_c05(run: ApiRun):
    v = []
    h = run.hist
    qby = {q["path"]: q for q in h["queued"]}
    for cb in h["callbacks"]:
        q = qby.get(cb["path"])
        if q is None:
            continue
        key = q["key"]
        for r in run.removers(cb["h"], key):
            if r.get("exc") or r.get("ret") is None or r["ret"] >= cb["c0"]:
                continue
            adds = run.adders(cb["h"], key)
            if not adds:
                continue  # never registered: C04's business
            if all((a.get("ret") is not None and a["ret"] < r["inv"]) or a["inv"] > cb["c0"] for a in adds):
                who = "reentrant" if r["reentrant"] else "external"
                v.append(Violation("called-after-removal", f"C05:callback-after-{r['op']}-returned:{who}", f"handler {cb['h']} called for {cb['path']} at {cb['c0']} although {r['op']} by {r['actor']} returned at {r['ret']}"))
                break
    # emitters of removed watches have stopped producing at return
    for r in h["calls"]:
        if r.get("exc") or r.get("ret") is None or r["op"] not in ("unschedule", "unschedule_all", "stop"):
            continue
        for inst in h["instances"]:
            if not inst.get("started") or inst["ctor_seq"] > r["inv"]:
                continue
            if r["op"] == "unschedule" and inst["key"] != r["key"]:
                continue
            # started certainly before the removal was invoked
            if inst.get("start_seq", 10**18) > r["inv"]:
                continue
            if inst["inst"] in r.get("alive_at_ret", []):
                v.append(Violation("emitter-alive", f"C05:emitter-alive-after-{r['op']}-returned", f"emitter instance {inst['inst']} of {inst['key']} still alive when {r['op']} returned at {r['ret']}"))
            if not any(sq < r["ret"] for sq in inst.get("stop_seqs", [])):
                v.append(Violation("emitter-not-stopped", f"C05:emitter-on_thread_stop-not-called-by-{r['op']}" + (":dead-emitter" if inst.get("died") else ""), f"emitter instance {inst['inst']} of {inst['key']} was never told to stop although {r['op']} returned at {r['ret']}"))
            late = [q for q in h["queued"] if q["inst"] == inst["inst"] and q["q0"] > r["ret"]]
            if late:
                v.append(Violation("emitter-produces", f"C05:emitter-produces-after-{r['op']}-returned", f"emitter instance {inst['inst']} queued {late[0]['path']} at {late[0]['q0']} after {r['op']} returned at {r['ret']}"))
    return v


def draw_concurrent_case(rng: random.Random, cfg: random.Random, *, reentrant=True, allow_stop_mid=True):
    """Small client program: 1-3 watches, 1-3 handlers, 1-3 actors (DESIGN.md 3.2)."""
    nspec = rng.choice([1, 2, 2, 3])
    paths = ["/w/p0", "/w/p1"]
    specs = []
    for i in range(nspec):
        if i > 0 and rng.random() < 0.3:
            specs.append(list(specs[rng.randrange(i)]))  # an equal watch
        else:
            specs.append([rng.choice(paths), rng.random() < 0.5, rng.choice([0, 0, 1])])
    nh = rng.choice([1, 2, 2, 3])
    scripts = {}
    for i in range(nspec):
        sc = []
        for _ in range(rng.randrange(0, 5)):
            if rng.random() < 0.3:
                sc.append(["sleep", rng.choice([1, 64, 512])])
            sc.append(["ev"])
        if rng.random() < 0.08:
            sc.insert(rng.randrange(len(sc) + 1), ["die"])
        scripts[str(i)] = sc
    nact = rng.choice([1, 2, 2, 3])
    owner = [rng.randrange(nact) for _ in range(nspec)]
    actors = []
    start_pos = rng.choice(["first", "first", "mid", "late"])
    for a in range(nact):
        prog = []
        model = {}  # spec -> set of handlers (this actor's view)
        mine = [i for i in range(nspec) if owner[i] == a]
        n = rng.randrange(1, 6)
        for _ in range(n):
            r = rng.random()
            sched = [s for s in mine if s in model]
            if mine and (r < 0.35 or not sched):
                s = rng.choice(mine)
                hh = rng.randrange(nh)
                prog.append(["schedule", hh, s])
                model.setdefault(s, set()).add(hh)
            elif sched and r < 0.5:
                s = rng.choice(sched)
                prog.append(["unschedule", s])
                del model[s]
            elif sched and r < 0.62:
                s = rng.choice(sched)
                hh = rng.randrange(nh)
                prog.append(["add_handler", hh, s])
                model[s].add(hh)
            elif sched and r < 0.74 and any(model[s] for s in sched):
                s = rng.choice([s for s in sched if model[s]])
                hh = rng.choice(sorted(model[s]))
                prog.append(["remove_handler", hh, s])
                model[s].discard(hh)
            elif r < 0.80:
                prog.append(["unschedule_all"])
                model.clear()
            elif r < 0.92:
                prog.append(["barrier"])
            else:
                prog.append(["sleep", rng.choice([1, 64, 513])])
        actors.append(prog)
    main = actors[0]
    pos = {"first": 0, "mid": len(main) // 2, "late": len(main)}[start_pos]
    main.insert(pos, ["start"])
    if allow_stop_mid and rng.random() < 0.15:
        main.insert(rng.randrange(pos + 1, len(main) + 1), ["stop"])
    hscripts = []
    if reentrant and rng.random() < 0.5:
        for _ in range(rng.choice([1, 1, 2])):
            hid = rng.randrange(nh)
            nth = rng.choice([0, 0, 1, 2])
            s = rng.randrange(nspec)
            act = rng.choice([["unschedule", s], ["remove_handler", hid, s], ["schedule", rng.randrange(nh), s], ["unschedule_all"], ["stop"], ["add_handler", rng.randrange(nh), s]])
            hscripts.append([hid, nth, act])
    return {"specs": specs, "scripts": scripts, "handlers": nh, "actors": actors, "hscripts": hscripts, "emitter_faults": {}}


def tolerated_exception(run: ApiRun, rec):
    """Exceptions that are the caller's own error (outside the valid API domain) or prescribed by CPython are not
    findings: a KeyError from remove_handler_for_watch / unschedule is a finding only when the handler / watch was
    *certainly* registered during the whole call; RuntimeError from a second start() or a join() before start()."""
    op, exc = rec["op"], rec["exc"]
    if exc is None:
        return True
    if op in ("start", "join") and exc == "RuntimeError":
        return True
    ret = rec.get("ret", 10**18)
    if op == "remove_handler" and exc == "KeyError":
        return not run.certainly_registered(rec["h"], rec["key"], rec["inv"], ret)
    if op == "unschedule" and exc == "KeyError":
        key = rec["key"]
        for a in run.hist["calls"]:
            if a["op"] != "schedule" or a.get("key") != key or a.get("exc") or a.get("ret") is None or a["ret"] >= rec["inv"]:
                continue
            rem = [c for c in run.hist["calls"] if c is not rec and (c["op"] in ("unschedule_all", "stop") or (c["op"] == "unschedule" and c.get("key") == key))]
            if all((r.get("ret") is not None and r["ret"] < a["inv"]) or r["inv"] > ret for r in rem):
                return False  # certainly scheduled, yet KeyError
        return True
    if op in ("schedule", "start") and exc == "OSError" and "injected" in rec.get("msg", ""):
        return True
    return False
