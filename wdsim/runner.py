"""Batch runner: forks workers, aggregates, minimises, replays, writes evidence (DESIGN.md 2.7)."""
from __future__ import annotations

import faulthandler
import hashlib
import json
import os
import shutil
import signal
import subprocess
import sys
import time
import traceback

VERIF = os.path.dirname(os.path.dirname(os.path.abspath(__file__)))
SEED_MULT = 1_000_003
NPROC = int(os.environ.get("WDSIM_NPROC", "16"))
KEY_CAP = 250_000  # per worker: beyond this the distinct counts in the evidence are lower bounds


def scratch_base():
    base = "/dev/shm" if os.path.isdir("/dev/shm") and os.access("/dev/shm", os.W_OK) else os.environ.get("TMPDIR", "/tmp")
    d = os.path.join(base, f"wdsim-{os.getuid()}")
    os.makedirs(d, exist_ok=True)
    return d


def src_dir():
    return os.environ.get("WDSIM_SRC", "/repo/src")


def setup_path():
    s = src_dir()
    if s in sys.path:
        sys.path.remove(s)
    sys.path.insert(0, s)
    if VERIF not in sys.path:
        sys.path.insert(0, VERIF)
    from . import instrument

    instrument.install(s)


def run_seed(base, idx):
    return base * SEED_MULT + idx


def load_scenario(prop):
    setup_path()
    from . import registry

    return registry.get(prop)


def load_findings():
    p = os.path.join(VERIF, "known_findings.json")
    if not os.path.exists(p):
        return {"known": [], "fixed": []}
    with open(p) as f:
        return json.load(f)


def known_signatures(prop):
    return {e["signature"]: e for e in load_findings().get("known", []) if e["property"] == prop}


def key_of(obj):
    return hashlib.blake2b(json.dumps(obj, sort_keys=True, default=repr).encode(), digest_size=8).hexdigest()


# ----------------------------------------------------------------------------- one run
def execute(scn, case, sched_seed, trace=None):
    """Run one case; returns the result dict.  Harness exceptions are reported, not raised."""
    try:
        res = scn.run_case(case, sched_seed, trace)
    except BaseException as e:  # noqa: BLE001
        return {"harness_error": f"{type(e).__name__}: {e}\n{traceback.format_exc()[-1500:]}", "violations": [], "stats": {}, "faults": {}, "probes": {}, "digest": "", "trace": {}}
    res.setdefault("harness_error", None)
    res.setdefault("violations", [])
    res.setdefault("faults", {})
    res.setdefault("probes", {})
    res.setdefault("stats", {})
    res.setdefault("trace", {})
    return res


# ----------------------------------------------------------------------------- worker
def worker(prop, tier, base_seed, wid, nworkers, budget_s, max_runs, out_path):
    faulthandler.enable()
    faulthandler.dump_traceback_later(budget_s + 60, exit=True)
    import logging

    logging.disable(logging.CRITICAL)  # the library's own logger.error/debug output is not part of the verdict
    scn = load_scenario(prop)
    t0 = time.time()
    agg = {
        "runs": 0, "steps": 0, "decisions": 0, "sim_ticks": 0, "preemptions": 0, "switches": 0,
        "faults": {}, "probes": {}, "hist_keys": set(), "inter_keys": set(), "nontrivial": set(),
        "violations": [], "sig_counts": {}, "harness_errors": [], "samples": [], "extra": {},
    }
    idx = wid
    enum_done = False
    while True:
        if max_runs is not None and agg["runs"] >= max_runs:
            break
        if time.time() - t0 > budget_s:
            break
        seed = run_seed(base_seed, idx)
        case = scn.gen_case(seed, tier, idx)
        if case is None:  # enumeration exhausted (exhaustive scenarios)
            enum_done = True
            break
        res = execute(scn, case, seed)
        agg["runs"] += 1
        st = res["stats"]
        for k in ("steps", "decisions", "sim_ticks", "preemptions", "switches"):
            agg[k] += st.get(k, 0)
        for k, v in res["faults"].items():
            agg["faults"][k] = agg["faults"].get(k, 0) + v
        for k, v in res["probes"].items():
            if not k.startswith("_"):
                agg["probes"][k] = agg["probes"].get(k, 0) + v
        for k, v in res.get("extra", {}).items():
            if isinstance(v, (int, float)):
                agg["extra"][k] = agg["extra"].get(k, 0) + v
        hk = res.get("hist_key") or key_of(case.get("ops", case))
        ik = key_of(res["trace"])
        if len(agg["hist_keys"]) < KEY_CAP:
            agg["hist_keys"].add(hk)
        if len(agg["inter_keys"]) < KEY_CAP:
            agg["inter_keys"].add(ik)
        if (res["trace"] or res["faults"] or res.get("nontrivial")) and len(agg["nontrivial"]) < KEY_CAP:
            agg["nontrivial"].add(hk + ik)
        if res["harness_error"]:
            if len(agg["harness_errors"]) < 3:
                agg["harness_errors"].append({"seed": seed, "error": res["harness_error"], "case": case})
        for v in res["violations"]:
            sig = v["signature"]
            agg["sig_counts"][sig] = agg["sig_counts"].get(sig, 0) + 1
            if sum(1 for x in agg["violations"] if x["violation"]["signature"] == sig) < 2:
                agg["violations"].append({"seed": seed, "case": case, "violation": v, "trace": res["trace"], "digest": res["digest"],
                                          "prelude": {"base_seed": base_seed, "tier": tier, "first": wid, "stride": nworkers, "upto": idx}})
        if len(agg["samples"]) < 2 and res.get("sample") is not None:
            agg["samples"].append({"seed": seed, "case": case, "outcome": res["sample"]})
        idx += nworkers
    agg["wall"] = time.time() - t0
    agg["enum_done"] = enum_done
    agg["capped"] = any(len(agg[k]) >= KEY_CAP for k in ("hist_keys", "inter_keys", "nontrivial"))
    for k in ("hist_keys", "inter_keys", "nontrivial"):
        agg[k] = sorted(agg[k])
    with open(out_path + ".tmp", "w") as f:
        json.dump(agg, f, default=repr)
    os.replace(out_path + ".tmp", out_path)


def run_batch(prop, tier, base_seed, budget_s, max_runs=None, nproc=NPROC):
    sb = scratch_base()
    tag = f"{prop}-{os.getpid()}"
    outs = []
    pids = []
    sys.stdout.flush()
    sys.stderr.flush()
    for w in range(nproc):
        out = os.path.join(sb, f"res-{tag}-{w}.json")
        if os.path.exists(out):
            os.unlink(out)
        outs.append(out)
        pid = os.fork()
        if pid == 0:
            code = 0
            try:
                per = None if max_runs is None else (max_runs + nproc - 1 - w) // nproc
                worker(prop, tier, base_seed, w, nproc, budget_s, per, out)
            except BaseException:  # noqa: BLE001
                traceback.print_exc()
                code = 3
            finally:
                sys.stdout.flush()
                sys.stderr.flush()
                os._exit(code)
        pids.append(pid)
    deadline = time.time() + budget_s + 90
    status = {}
    pending = set(pids)
    while pending:
        for p in list(pending):
            r, st = os.waitpid(p, os.WNOHANG)
            if r == p:
                status[p] = st
                pending.discard(p)
        if pending:
            if time.time() > deadline:
                for p in pending:
                    try:
                        os.kill(p, signal.SIGKILL)
                    except OSError:
                        pass
                    os.waitpid(p, 0)
                    status[p] = -9
                pending.clear()
                break
            time.sleep(0.05)
    aggs = []
    errors = []
    for pid, out in zip(pids, outs):
        if status.get(pid) != 0 or not os.path.exists(out):
            errors.append(f"worker pid={pid} status={status.get(pid)}")
            continue
        with open(out) as f:
            aggs.append(json.load(f))
        os.unlink(out)
    return aggs, errors


def merge(aggs):
    m = {
        "runs": 0, "steps": 0, "decisions": 0, "sim_ticks": 0, "preemptions": 0, "switches": 0,
        "faults": {}, "probes": {}, "hist_keys": set(), "inter_keys": set(), "nontrivial": set(),
        "violations": [], "sig_counts": {}, "harness_errors": [], "samples": [], "extra": {}, "wall": 0.0,
        "enum_done": bool(aggs),
    }
    for a in aggs:
        for k in ("runs", "steps", "decisions", "sim_ticks", "preemptions", "switches"):
            m[k] += a[k]
        for d in ("faults", "probes", "sig_counts", "extra"):
            for k, v in a[d].items():
                m[d][k] = m[d].get(k, 0) + v
        for k in ("hist_keys", "inter_keys", "nontrivial"):
            m[k].update(a[k])
        m["violations"].extend(a["violations"])
        m["harness_errors"].extend(a["harness_errors"])
        m["samples"].extend(a["samples"])
        m["wall"] = max(m["wall"], a["wall"])
        m["capped"] = m.get("capped", False) or a.get("capped", False)
        m["enum_done"] = m["enum_done"] and a.get("enum_done", False)
    return m


# ----------------------------------------------------------------------------- replay / minimise
def replay_file_run(path):
    with open(path) as f:
        rp = json.load(f)
    scn = load_scenario(rp["property"])
    pre = rp.get("prelude")
    if pre:
        # the violation depends on state the code under test keeps across runs inside one process (a module- or class-level
        # cache): re-run, unjudged, exactly the runs its worker had executed before it
        import logging

        logging.disable(logging.CRITICAL)
        for idx in range(pre["first"], pre["upto"], pre["stride"]):
            seed = run_seed(pre["base_seed"], idx)
            case = scn.gen_case(seed, pre["tier"], idx)
            if case is None:
                break
            execute(scn, case, seed)
    res = execute(scn, rp["case"], rp["sched_seed"], rp.get("trace"))
    return rp, res


def same_violation(res, signature):
    return any(v["signature"] == signature for v in res["violations"])


def _run_in_child(prop, case, sched_seed, trace, timeout=120, hashseed="0", prelude=None):
    """Run one case in a fresh interpreter; returns result dict or None on failure."""
    sb = scratch_base()
    p = os.path.join(sb, f"one-{os.getpid()}-{time.time_ns()}.json")
    with open(p, "w") as f:
        json.dump({"property": prop, "case": case, "sched_seed": sched_seed, "trace": trace, "prelude": prelude}, f)
    env = dict(os.environ, PYTHONHASHSEED=hashseed, WDSIM_CHILD="1")
    try:
        out = subprocess.run([sys.executable, os.path.join(VERIF, "check"), prop, "--replay", p, "--json"], capture_output=True, text=True, timeout=timeout, env=env)
        line = [ln for ln in out.stdout.splitlines() if ln.startswith("{")]
        return json.loads(line[-1]) if line else None
    except (subprocess.TimeoutExpired, ValueError):
        return None
    finally:
        if os.path.exists(p):
            os.unlink(p)


def _forked_try(scn, case, sched_seed, trace, signature, timeout=60):
    """Run a candidate in a forked child with a wall-clock limit; True if same violation."""
    r, w = os.pipe()
    pid = os.fork()
    if pid == 0:
        os.close(r)
        code = 1
        try:
            faulthandler.dump_traceback_later(timeout, exit=True)
            res = execute(scn, case, sched_seed, trace)
            ok = same_violation(res, signature) and not res["harness_error"]
            os.write(w, json.dumps({"ok": ok, "trace": res["trace"], "digest": res["digest"]}).encode())
            code = 0
        except BaseException:  # noqa: BLE001
            pass
        finally:
            os._exit(code)
    os.close(w)
    buf = b""
    t0 = time.time()
    import select

    while True:
        rl, _, _ = select.select([r], [], [], 1.0)
        if rl:
            chunk = os.read(r, 1 << 16)
            if not chunk:
                break
            buf += chunk
        if time.time() - t0 > timeout + 5:
            try:
                os.kill(pid, signal.SIGKILL)
            except OSError:
                pass
            break
    os.close(r)
    os.waitpid(pid, 0)
    try:
        return json.loads(buf.decode())
    except ValueError:
        return {"ok": False}


def minimise(scn, item, budget_s=120):
    """Delta debugging over the case (scenario-provided shrink candidates), then over the trace."""
    sig = item["violation"]["signature"]
    case, seed = item["case"], item["seed"]
    t0 = time.time()
    tried = 0
    # phase 1: shrink the case under the same scheduler seed (also a few alternative seeds)
    improved = True
    while improved and time.time() - t0 < budget_s:
        improved = False
        for cand in scn.shrink(case):
            if time.time() - t0 > budget_s:
                break
            tried += 1
            for s in (seed, seed + 1, seed + 2):
                r = _forked_try(scn, cand, s, None, sig)
                if r.get("ok"):
                    case, seed = cand, s
                    improved = True
                    break
            if improved:
                break
    # phase 2: record the trace of the final case and drop decisions from the end backwards
    r = _forked_try(scn, case, seed, None, sig)
    trace = r.get("trace") if r.get("ok") else None
    if trace is not None:
        rr = _forked_try(scn, case, seed, trace, sig)
        if not rr.get("ok"):
            trace = None  # trace replay does not reproduce; keep seed-based replay
    if trace:
        keys = sorted(trace, key=int)
        # try dropping large chunks first
        chunk = max(1, len(keys) // 2)
        while chunk >= 1 and time.time() - t0 < budget_s * 1.5:
            i = len(keys)
            changed = False
            while i > 0 and time.time() - t0 < budget_s * 1.5:
                lo = max(0, i - chunk)
                cand_keys = keys[:lo] + keys[i:]
                cand = {k: trace[k] for k in cand_keys}
                rr = _forked_try(scn, case, seed, cand, sig)
                tried += 1
                if rr.get("ok"):
                    keys = cand_keys
                    trace = cand
                    changed = True
                i = lo
            if not changed or chunk == 1:
                chunk //= 2
    return case, seed, trace, tried


def write_replay(prop, case, seed, trace, violation, digest=None, prelude=None):
    d = os.environ.get("WDSIM_REPLAY_DIR") or os.path.join(VERIF, "replays")
    os.makedirs(d, exist_ok=True)
    path = os.path.join(d, f"{prop}-{seed}.json")
    with open(path, "w") as f:
        rp = {"property": prop, "violation": violation, "sched_seed": seed, "case": case, "trace": trace, "digest": digest}
        if prelude:
            rp["prelude"] = prelude
        json.dump(rp, f, indent=1, default=repr)
    return path


# ----------------------------------------------------------------------------- evidence
def write_evidence(prop, tier, base_seed, scn, m, wall, n_viol, extra_cov=None):
    if os.environ.get("WDSIM_NO_EVIDENCE"):
        return
    os.makedirs(os.path.join(VERIF, "evidence"), exist_ok=True)
    runs = max(1, m["runs"])
    cov = {
        "evaluations": m["runs"],
        "distinct_nontrivial": len(m["nontrivial"]),
        "rule": scn.rule,
        "samples": m["samples"][:3] or [{"note": "no sample recorded"}],
        "distinct_histories": len(m["hist_keys"]),
        "distinct_interleavings": len(m["inter_keys"]),
        "runs_per_hour": int(m["runs"] / max(wall, 1e-6) * 3600),
        "simulated_seconds": round(m["sim_ticks"] / 1024.0, 1),
        "scheduler_steps": m["steps"],
        "decision_points": m["decisions"],
        "context_switches": m["switches"],
        "line_preemptions": m["preemptions"],
        "faults_fired": m["faults"],
        "probes_hit": m["probes"],
        "violation_signatures": m["sig_counts"],
        "components": scn.components,
        "workers": NPROC,
        "distinct_counts_are_lower_bounds": bool(m.get("capped")),
        "exhaustive": bool(getattr(scn, "exhaustive", False) and m.get("enum_done")),
    }
    cov.update(m.get("extra", {}))
    if extra_cov:
        cov.update(extra_cov)
    ev = {
        "property_id": prop,
        "tier": tier,
        "seed": base_seed,
        "level": scn.level,
        "coverage": cov,
        "assumptions": scn.assumptions,
        "wall_s": round(wall, 2),
        "violations": n_viol,
    }
    with open(os.path.join(VERIF, "evidence", f"{prop}.json"), "w") as f:
        json.dump(ev, f, indent=1, default=repr)


# ----------------------------------------------------------------------------- top level
def check(prop, tier, base_seed, budget_s=None, max_runs=None):
    scn = load_scenario(prop)
    if budget_s is None:
        env = os.environ.get("VERIF_BUDGET_S")
        budget_s = float(env) if env else (scn.budget.get(tier, 30))
    t0 = time.time()
    print(f"seed={base_seed} property={prop} tier={tier} budget_s={budget_s} src={src_dir()}")
    aggs, errors = run_batch(prop, tier, base_seed, budget_s, max_runs)
    m = merge(aggs)
    wall = time.time() - t0
    known = known_signatures(prop)
    exit_code = 0
    # harness errors
    if errors or m["harness_errors"]:
        for e in errors:
            print(f"HARNESS-ERROR property={prop} {e}")
        for h in m["harness_errors"][:3]:
            print(f"HARNESS-ERROR property={prop} seed={h['seed']} {h['error'][:1200]}")
        exit_code = 2
    # group violations by signature
    by_sig = {}
    for it in m["violations"]:
        by_sig.setdefault(it["violation"]["signature"], []).append(it)
    n_new = 0
    n_unrepro = 0
    cross_run_state = False
    for sig in sorted(by_sig):
        items = sorted(by_sig[sig], key=lambda it: len(json.dumps(it["case"])))
        if sig in known:
            print(f"KNOWN-FINDING: property={prop} {known[sig]['what_fails']} [signature={sig} runs={m['sig_counts'].get(sig)}]")
            continue
        n_new += 1
        it = items[0]
        prelude, note = None, ""
        try:
            # full minimisation budget for the first three new signatures, a short one for the rest
            case, seed, trace, tried = minimise(scn, it, budget_s=scn.budget.get("minimise", 60) if n_new <= 3 else 8)
        except BaseException as e:  # noqa: BLE001
            print(f"HARNESS-ERROR property={prop} minimiser failed: {e!r}")
            case, seed, trace = it["case"], it["seed"], None
        # fresh interpreter replay under another hash seed
        res = _run_in_child(prop, case, seed, trace, hashseed="12345")
        if res is None or not same_violation(res, sig):
            # fall back to the unminimised case
            res2 = _run_in_child(prop, it["case"], it["seed"], None, hashseed="12345")
            if res2 is not None and same_violation(res2, sig):
                case, seed, trace, res = it["case"], it["seed"], None, res2
            else:
                # last resort: the run together with everything its worker had run before it in the same process
                res3 = None
                if cross_run_state:
                    # one violation of this batch is already shown to depend on state kept across runs: the others that do not
                    # replay alone are listed, not replayed one by one (each replay costs a whole worker's history)
                    print(f"UNCONFIRMED property={prop} signature={sig} seed={it['seed']} not replayed (cross-run state, see the VIOLATION above)")
                    continue
                if it.get("prelude") and n_unrepro < 2:
                    n_unrepro += 1
                    res3 = _run_in_child(prop, it["case"], it["seed"], it["trace"], timeout=max(300, int(wall) * 3), hashseed="12345", prelude=it["prelude"])
                if res3 is not None and same_violation(res3, sig):
                    case, seed, trace, res, prelude = it["case"], it["seed"], it["trace"], res3, it["prelude"]
                    cross_run_state = True
                    note = " [depends on state the code under test keeps across runs in one process; the replay file re-runs the preceding runs of its worker]"
                else:
                    print(f"HARNESS-ERROR property={prop} violation {sig} seed={it['seed']} did not reproduce in a fresh process")
                    exit_code = max(exit_code, 2)
                    continue
        path = write_replay(prop, case, seed, trace, it["violation"], res.get("digest"), prelude=prelude)
        print(f"VIOLATION property={prop} replay={path}{note}")
        print(f"  signature={sig} message={it['violation'].get('message', '')[:600]}")
        exit_code = 1
    write_evidence(prop, tier, base_seed, scn, m, wall, n_new)
    print(f"property={prop} runs={m['runs']} distinct_histories={len(m['hist_keys'])} distinct_interleavings={len(m['inter_keys'])} "
          f"faults={m['faults']} probes={m['probes']} known={ {s: m['sig_counts'][s] for s in by_sig if s in known} } new_violations={n_new} wall={wall:.1f}s exit={exit_code}")
    return exit_code


def main(argv=None):
    import argparse

    ap = argparse.ArgumentParser()
    ap.add_argument("prop")
    ap.add_argument("--tier", default=os.environ.get("VERIF_TIER", "quick"))
    ap.add_argument("--seed", type=int, default=None)
    ap.add_argument("--replay")
    ap.add_argument("--json", action="store_true")
    ap.add_argument("--runs", type=int, default=None)
    ap.add_argument("--budget", type=float, default=None)
    ap.add_argument("--one", type=int, default=None, help="run a single run index in-process and print the result")
    a = ap.parse_args(argv)
    for stream in (sys.stdout, sys.stderr):
        # messages quote file names that are not valid UTF-8 (lone surrogates): never let printing them fail or emit raw bytes
        try:
            stream.reconfigure(errors="backslashreplace")
        except (AttributeError, ValueError):
            pass
    if os.environ.get("PYTHONHASHSEED") is None:
        os.environ["PYTHONHASHSEED"] = "0"
        os.execv(sys.executable, [sys.executable, os.path.join(VERIF, "check")] + (argv if argv is not None else sys.argv[1:]))
    setup_path()
    base_seed = a.seed if a.seed is not None else int(os.environ.get("VERIF_SEED", "1"))
    if a.prop == "selftest-sensitivity":
        from . import sensitivity

        return sensitivity.main(a)
    if a.prop.startswith("selftest"):
        from . import selftest

        return selftest.main(a.prop, base_seed, a)
    if a.replay:
        rp, res = replay_file_run(a.replay)
        if a.json:
            print(json.dumps({"violations": res["violations"], "digest": res["digest"], "harness_error": res["harness_error"]}, default=repr))
            return 0
        want = (rp.get("violation") or {}).get("signature")
        print(f"seed={rp['sched_seed']} property={rp['property']} replay={a.replay}")
        for v in res["violations"]:
            print(f"  violation signature={v['signature']} message={v.get('message', '')[:800]}")
        if res["harness_error"]:
            print("HARNESS-ERROR", res["harness_error"])
            return 2
        if res["violations"]:
            print(f"VIOLATION property={rp['property']} replay={a.replay}")
            if want and not same_violation(res, want):
                print(f"  (recorded signature {want} not reproduced; a different violation occurred)")
            return 1
        print("no violation on this tree")
        return 0
    if a.one is not None:
        scn = load_scenario(a.prop)
        seed = run_seed(base_seed, a.one)
        case = scn.gen_case(seed, a.tier, a.one)
        res = execute(scn, case, seed)
        print(json.dumps({"seed": seed, "case": case, "res": {k: v for k, v in res.items() if k != "log"}}, indent=1, default=repr))
        for ln in res.get("log", [])[:400]:
            print("   ", ln)
        return 0
    return check(a.prop, a.tier, base_seed, a.budget, a.runs)
