"""Sensitivity self-test (DESIGN.md 2.8): every mutant in /verif/mutants must make the listed check exit 1."""
from __future__ import annotations

import json
import os
import shutil
import subprocess
import sys
import time

from . import runner


def apply_mutant(diff_path, dest):
    """Copy /repo/src to dest/src and apply the diff there."""
    if os.path.exists(dest):
        shutil.rmtree(dest)
    os.makedirs(dest)
    shutil.copytree(os.path.join(os.path.dirname(runner.src_dir().rstrip("/")), "src"), os.path.join(dest, "src"))
    r = subprocess.run(["patch", "-p1", "-s", "-d", dest, "-i", diff_path], capture_output=True, text=True)
    if r.returncode != 0:
        raise RuntimeError(f"patch failed for {diff_path}: {r.stdout} {r.stderr}")


def main(args):
    mdir = os.path.join(runner.VERIF, "mutants")
    idx = json.load(open(os.path.join(mdir, "index.json")))
    only = os.environ.get("WDSIM_MUTANTS")
    only = set(only.split(",")) if only else None
    props_only = os.environ.get("WDSIM_PROPS")
    props_only = set(props_only.split(",")) if props_only else None
    results = {}
    bad = 0
    budget = str(args.budget or 20)
    for name in sorted(idx):
        if only and name not in only:
            continue
        for prop in idx[name]["expect"]:
            if props_only and prop not in props_only:
                continue
            dest = os.path.join(runner.scratch_base(), f"mut-{name}-{os.getpid()}")
            try:
                try:
                    apply_mutant(os.path.join(mdir, name + ".diff"), dest)
                except RuntimeError as e:
                    print(f"mutant={name} property={prop} caught=False exit=? PATCH DOES NOT APPLY: {str(e)[:200]}")
                    results[f"{name}/{prop}"] = {"caught": False, "error": "patch does not apply"}
                    bad += 1
                    continue
                t0 = time.time()
                env = dict(os.environ, WDSIM_SRC=os.path.join(dest, "src"), WDSIM_NO_EVIDENCE="1", WDSIM_REPLAY_DIR=os.path.join(dest, "replays"))
                r = subprocess.run([sys.executable, os.path.join(runner.VERIF, "check"), prop, "--budget", budget], capture_output=True, text=True, errors="replace", env=env, timeout=1800)
                caught = r.returncode == 1 and "VIOLATION property=" in r.stdout
                sigs = [ln.strip() for ln in r.stdout.splitlines() if ln.strip().startswith("signature=")]
                results[f"{name}/{prop}"] = {"caught": caught, "exit": r.returncode, "t": round(time.time() - t0, 1), "signatures": [s[:160] for s in sigs[:3]]}
                print(f"mutant={name} property={prop} caught={caught} exit={r.returncode} t={time.time() - t0:.0f}s {sigs[:1]}")
                if not caught:
                    bad += 1
                    print(r.stdout[-600:], r.stderr[-600:])
            finally:
                shutil.rmtree(dest, ignore_errors=True)
    out = os.path.join(runner.VERIF, "mutants", "last_results.json")
    if not only and not props_only:
        json.dump(results, open(out, "w"), indent=1, sort_keys=True)
    print(f"selftest-sensitivity mutants={len(results)} missed={bad}")
    return 2 if bad else 0
