"""Model tree, operation generator with the directory pacing rule, and per-operation event contracts
(DESIGN.md 3.1 and Appendix A).  Paths are strings relative to the scratch top: "root/a/b", "out/o1".

Event shapes are tuples (etype, is_dir, src, dest, synthetic).
"""
from __future__ import annotations

import random

ROOT = "root"
OUT = "out"


def parent(p):
    return p.rsplit("/", 1)[0]


def is_under(p, d):
    return p == d or p.startswith(d + "/")


class Model:
    """path -> (kind 'f'|'d', entry id).  Ground truth of who-is-what-when."""

    def __init__(self):
        self.t = {ROOT: ("d", 0), OUT: ("d", 1)}
        self.next_id = 2
        # pacing state
        self.tainted_ids = set()
        self.tainted_names = set()
        self.returned_ids = set()  # directories that left the tree and came back since the last drain (their watches still carry the old path)
        self.left = {}  # entry id -> path outside the tree (entries that have left the scope)

    def copy_tree(self):
        return dict(self.t)

    def new_id(self):
        i = self.next_id
        self.next_id += 1
        return i

    def kind(self, p):
        e = self.t.get(p)
        return e[0] if e else None

    def eid(self, p):
        e = self.t.get(p)
        return e[1] if e else None

    def children(self, d):
        pre = d + "/"
        return sorted(p for p in self.t if p.startswith(pre) and "/" not in p[len(pre):])

    def subtree(self, d):
        """Strict descendants, parents before children."""
        pre = d + "/"
        return sorted((p for p in self.t if p.startswith(pre)), key=lambda p: (p.count("/"), p))

    def dirs_in(self, base):
        return [p for p in sorted(self.t) if is_under(p, base) and self.t[p][0] == "d"]

    def files_in(self, base):
        return [p for p in sorted(self.t) if is_under(p, base) and self.t[p][0] == "f"]

    # ---- pacing
    def drain(self):
        self.tainted_ids.clear()
        self.tainted_names.clear()
        self.returned_ids.clear()

    def inside_tainted(self, p):
        d = parent(p)
        while "/" in d or d in (ROOT, OUT):
            if self.eid(d) in self.tainted_ids:
                return True
            if "/" not in d:
                break
            d = parent(d)
        return False

    def name_ok(self, p):
        return p not in self.tainted_names and not self.inside_tainted(p)

    def taint(self, p):
        e = self.t.get(p)
        if e:
            self.tainted_ids.add(e[1])
        self.tainted_names.add(p)

    # ---- mutations
    def add(self, p, kind):
        self.t[p] = (kind, self.new_id())

    def remove(self, p):
        for q in [q for q in self.t if is_under(q, p)]:
            del self.t[q]

    def move(self, s, d):
        self.remove(d)
        for q in [q for q in sorted(self.t) if is_under(q, s)]:
            self.t[d + q[len(s):]] = self.t.pop(q)


# ----------------------------------------------------------------------------- contracts
def ev(etype, isdir, src, dest="", syn=False):
    return (etype, bool(isdir), src, dest, bool(syn))


def in_scope(p, recursive):
    """Is entry path p reported by a watch on ROOT? (recursive: anything below; else direct children)"""
    if not is_under(p, ROOT) or p == ROOT:
        return False
    if recursive:
        return True
    return parent(p) == ROOT


def contract(m: Model, op, recursive=True, full=False):
    """(required, allowed) event-shape sets for operation `op` applied to model state `m` (before the op)."""
    k = op[0]
    R, A = set(), set()

    def dirmod(d, req=True):
        # a directory-modified event for d is reported iff d's own entries are visible to the watch
        if d == ROOT or (recursive and is_under(d, ROOT)):
            (R if req else A).add(ev("modified", True, d))

    if k == "mkfile":
        p = op[1]
        if in_scope(p, recursive):
            R.add(ev("created", False, p))
            dirmod(parent(p))
            A |= {ev("opened", False, p), ev("closed", False, p)}
    elif k == "mkspecial":
        # a FIFO or a dangling symbolic link: neither directory nor regular file, reported with the File flavour
        p = op[1]
        if in_scope(p, recursive):
            R.add(ev("created", False, p))
            dirmod(parent(p))
    elif k == "write":
        p = op[1]
        if in_scope(p, recursive):
            R.add(ev("modified", False, p))
            A |= {ev("opened", False, p), ev("closed", False, p)}
            dirmod(parent(p), req=False)
    elif k == "chmod":
        p = op[1]
        isd = m.kind(p) == "d"
        if in_scope(p, recursive):
            R.add(ev("modified", isd, p))
        elif isd and recursive is False and parent(p) != ROOT:
            pass
    elif k == "unlink":
        p = op[1]
        if in_scope(p, recursive):
            R.add(ev("deleted", False, p))
            dirmod(parent(p))
    elif k == "mkdir":
        p = op[1]
        if in_scope(p, recursive):
            R.add(ev("created", True, p))
            dirmod(parent(p))
    elif k == "makedirs":
        # op = ["makedirs", existing_parent, [n1, n2, ...]]
        p = op[1]
        for n in op[2]:
            p = p + "/" + n
            if in_scope(p, recursive):
                R.add(ev("created", True, p))
                dirmod(parent(p))
    elif k == "burst":
        # op = ["burst", existing_parent, [n1, n2, ...], [[level, fname], ...]]: mkdir -p chain immediately followed by
        # files created inside the new directories (the "nested burst" the library simulates events for)
        p = op[1]
        paths = []
        for n in op[2]:
            p = p + "/" + n
            paths.append(p)
            if in_scope(p, recursive):
                R.add(ev("created", True, p))
                dirmod(parent(p))
        for lvl, fn in op[3]:
            f = paths[lvl] + "/" + fn
            if in_scope(f, recursive):
                R.add(ev("created", False, f))
                dirmod(paths[lvl])
                A |= {ev("opened", False, f), ev("closed", False, f)}
        for lvl, dn in (op[4] if len(op) > 4 else []):  # extra sibling directories inside the new directories
            dd = paths[lvl] + "/" + dn
            if in_scope(dd, recursive):
                R.add(ev("created", True, dd))
                dirmod(paths[lvl])
        for lvl, ln in (op[5] if len(op) > 5 else []):  # symbolic links to a directory outside the tree: not directories
            ll = paths[lvl] + "/" + ln
            if in_scope(ll, recursive):
                R.add(ev("created", False, ll))
                dirmod(paths[lvl])
    elif k == "rmdir":
        p = op[1]
        if in_scope(p, recursive):
            R.add(ev("deleted", True, p))
            dirmod(parent(p))
    elif k == "rmtree":
        p = op[1]
        for q in [p] + m.subtree(p):
            if in_scope(q, recursive):
                R.add(ev("deleted", m.kind(q) == "d", q))
                dirmod(parent(q))
    elif k == "rename":
        s, d = op[1], op[2]
        isd = m.kind(s) == "d"
        s_in, d_in = in_scope(s, recursive), in_scope(d, recursive)
        if recursive and m.kind(d) == "d" and d_in:
            # the replaced (empty) directory has its own watch and the kernel reports its link-count change
            A.add(ev("modified", True, d))
        if s_in and d_in:
            R.add(ev("moved", isd, s, d))
            dirmod(parent(s))
            dirmod(parent(d))
            if isd and recursive:
                for q in m.subtree(s):
                    R.add(ev("moved", m.kind(q) == "d", q, d + q[len(s):], True))
        elif s_in:  # leaves the visible scope (non-recursive watch): like a move out
            R.add(ev("moved", isd, s, "") if full else ev("deleted", isd, s))
            dirmod(parent(s))
        elif d_in:
            R.add(ev("moved", isd, "", d) if full else ev("created", isd, d))
            dirmod(parent(d))
    elif k == "moveout":
        s = op[1]
        isd = m.kind(s) == "d"
        if in_scope(s, recursive):
            R.add(ev("moved", isd, s, "") if full else ev("deleted", isd, s))
            dirmod(parent(s))
    elif k == "movein_file":
        d = op[2]
        if in_scope(d, recursive):
            R.add(ev("moved", False, "", d) if full else ev("created", False, d))
            dirmod(parent(d))
    elif k == "movein_tree":
        # op = ["movein_tree", shape, dst]; shape = list of [relpath, kind] with kind d | f | s (FIFO)
        d = op[2]
        if in_scope(d, recursive):
            R.add(ev("moved", True, "", d) if full else ev("created", True, d))
            dirmod(parent(d))
            if recursive:
                for rel, kind in op[1]:
                    R.add(ev("created", kind == "d", d + "/" + rel, "", True))
    elif k == "moveback":
        # op = ["moveback", "out/oN", dst]: an entry that left the tree earlier (same inode, same contents) comes back
        s, d = op[1], op[2]
        isd = m.kind(s) == "d"
        if in_scope(d, recursive):
            R.add(ev("moved", isd, "", d) if full else ev("created", isd, d))
            dirmod(parent(d))
            if recursive and isd:
                for q in m.subtree(s):
                    R.add(ev("created", m.kind(q) == "d", d + q[len(s):], "", True))
    elif k == "rmroot":
        # the content is removed bottom-up, then the root itself: exactly one DirDeleted(root), nothing outside the scope
        for q in m.subtree(ROOT):
            if in_scope(q, recursive):
                R.add(ev("deleted", m.kind(q) == "d", q))
                dirmod(parent(q))
        R.add(ev("deleted", True, ROOT))
    A |= R
    return R, A


def apply(m: Model, op):
    """Update the model tree for op (taints are handled by the generator)."""
    k = op[0]
    if k == "mkfile":
        m.add(op[1], "f")
    elif k == "mkspecial":
        m.add(op[1], "s")
    elif k == "mkdir":
        m.add(op[1], "d")
    elif k == "makedirs":
        p = op[1]
        for n in op[2]:
            p = p + "/" + n
            m.add(p, "d")
    elif k == "burst":
        p = op[1]
        paths = []
        for n in op[2]:
            p = p + "/" + n
            m.add(p, "d")
            paths.append(p)
        for lvl, fn in op[3]:
            m.add(paths[lvl] + "/" + fn, "f")
        for lvl, dn in (op[4] if len(op) > 4 else []):
            m.add(paths[lvl] + "/" + dn, "d")
        for lvl, ln in (op[5] if len(op) > 5 else []):
            m.add(paths[lvl] + "/" + ln, "s")
    elif k in ("unlink", "rmdir", "rmtree"):
        m.remove(op[1])
    elif k == "rename":
        m.move(op[1], op[2])
    elif k == "moveout":
        if not hasattr(m, "origin"):
            m.origin = {}
        m.origin[OUT + "/" + op[2]] = op[1]
        m.move(op[1], OUT + "/" + op[2])
    elif k == "moveback":
        m.move(op[1], op[2])
    elif k == "movein_file":
        m.add(op[2], "f")
    elif k == "movein_tree":
        m.add(op[2], "d")
        for rel, kind in op[1]:
            m.add(op[2] + "/" + rel, kind)
    elif k == "rmroot":
        m.remove(ROOT)
    elif k in ("out_mkfile",):
        m.add(op[1], "f")
    elif k in ("out_rmtree",):
        m.remove(op[1])
    elif k == "out_mkdir":
        m.add(op[1], "d")


RETURN_HOME = False  # set by the C07 scenario only (see valid(), moveback)


def valid(m: Model, op, paced=True, paced_out=True):
    """Pre-condition of op in model state m (used by the generator and by the minimiser's re-validation).
    With paced=True the directory pacing rule of C01 is enforced as well."""
    k = op[0]
    t = m.t

    def free_name(p):
        return p not in t and parent(p) in t and t[parent(p)][0] == "d" and (not paced or m.name_ok(p))

    def untouchable(p):  # subject strictly inside a tainted directory
        return paced and m.inside_tainted(p)

    if paced and paced_out and k in ("chmod", "rmdir", "rmtree", "rename", "moveout") and m.eid(op[1]) in getattr(m, "returned_ids", ()):
        # a directory that has just come back still answers under the name it left with until the stream has drained
        # (same window as for operations on a directory that is still outside)
        return False
    if k in ("mkfile", "mkspecial"):
        return is_under(op[1], ROOT) and free_name(op[1])
    if k == "write":
        return m.kind(op[1]) == "f" and not untouchable(op[1])
    if k == "chmod":
        return op[1] in t and m.kind(op[1]) != "s" and op[1] != ROOT and is_under(op[1], ROOT) and not untouchable(op[1])
    if k == "unlink":
        return m.kind(op[1]) in ("f", "s") and is_under(op[1], ROOT) and not untouchable(op[1])
    if k == "mkdir":
        return is_under(op[1], ROOT) and free_name(op[1])
    if k == "burst":
        if not valid(m, ["makedirs", op[1], op[2]], paced):
            return False
        extra = list(op[4] if len(op) > 4 else []) + list(op[5] if len(op) > 5 else [])
        for lvl, fn in list(op[3]) + list(extra):
            if lvl >= len(op[2]) or (lvl + 1 < len(op[2]) and op[2][lvl + 1] == fn):
                return False
        allnames = [(l, f) for l, f in list(op[3]) + list(extra)]
        return len(set(allnames)) == len(allnames)
    if k == "makedirs":
        p = op[1]
        if m.kind(p) != "d" or not is_under(p, ROOT) or not op[2]:
            return False
        if paced and (m.eid(p) in m.tainted_ids or m.inside_tainted(p + "/x")):
            return False
        first = p + "/" + op[2][0]
        return free_name(first)
    if k == "rmdir":
        return m.kind(op[1]) == "d" and op[1] != ROOT and is_under(op[1], ROOT) and not m.children(op[1]) and not untouchable(op[1])
    if k == "rmtree":
        p = op[1]
        if m.kind(p) != "d" or p == ROOT or not is_under(p, ROOT) or untouchable(p):
            return False
        if paced and (m.eid(p) in m.tainted_ids or any(m.eid(q) in m.tainted_ids for q in m.subtree(p))):
            return False
        return True
    if k == "rename":
        s, d = op[1], op[2]
        if s not in t or s == ROOT or not is_under(s, ROOT) or not is_under(d, ROOT) or d == ROOT:
            return False
        if s == d or is_under(d, s) or untouchable(s):
            return False
        if parent(d) not in t or t[parent(d)][0] != "d":
            return False
        if paced and not m.name_ok(d):
            return False
        if d in t:
            if t[d][0] != t[s][0] or (t[d][0] == "d" and m.children(d)):
                return False
            if paced and t[d][0] == "d" and m.eid(d) in m.tainted_ids:
                return False
            if paced and t[d][0] == "d" and any(n != d and is_under(n, d) for n in m.tainted_names):
                # replacing an empty directory whose former entries were created/renamed/removed since the last drain:
                # the arriving directory's contents would re-use those names (pacing condition of C01)
                return False
        return True
    if k == "moveout":
        s = op[1]
        if paced and m.kind(s) == "d" and m.eid(s) in m.tainted_ids:
            return False  # only rename-to-fresh-name, chmod and rmdir are allowed on a just-arrived directory
        return s in t and s != ROOT and is_under(s, ROOT) and not untouchable(s) and (OUT + "/" + op[2]) not in t
    if k == "moveback":
        s = op[1]
        # the directory itself may move again right after it arrived outside; its contents are not touched
        # (RETURN_HOME, C07 only: the entry may come straight back to the very path it left, pairing delay still running -
        # a liveness shape; the replay and contract oracles do not judge it, C01's pacing condition excludes it)
        home = RETURN_HOME and getattr(m, "origin", {}).get(s) == op[2] and op[2] not in t and parent(op[2]) in t and t[parent(op[2])][0] == "d"
        return s in t and parent(s) == OUT and t[s][0] in ("d", "f") and (free_name(op[2]) or home) and is_under(op[2], ROOT)
    if k == "movein_file":
        return free_name(op[2]) and is_under(op[2], ROOT)
    if k == "movein_tree":
        return free_name(op[2]) and is_under(op[2], ROOT)
    if k == "drain":
        return True
    if k == "rmroot":
        return ROOT in t
    if k in ("out_mkfile", "out_mkdir", "out_rmtree") and paced and paced_out and (m.inside_tainted(op[1]) or m.eid(op[1]) in m.tainted_ids or m.eid(parent(op[1])) in m.tainted_ids):
        return False
    if k == "out_mkfile":
        return op[1] not in t and m.kind(parent(op[1])) == "d" and is_under(op[1], OUT)
    if k == "out_mkdir":
        return op[1] not in t and m.kind(parent(op[1])) == "d" and is_under(op[1], OUT)
    if k == "out_rmtree":
        return m.kind(op[1]) == "d" and is_under(op[1], OUT) and op[1] != OUT
    return False


def taint_after(m_before: Model, m: Model, op):
    """Apply the taints of op (m is the model *after* the op, m_before the state before)."""
    k = op[0]
    if k == "mkdir":
        m.taint(op[1])
    elif k in ("makedirs", "burst"):
        p = op[1]
        paths = []
        for n in op[2]:
            p = p + "/" + n
            paths.append(p)
            m.taint(p)
        if k == "burst":
            for lvl, dn in (op[4] if len(op) > 4 else []):
                m.taint(paths[lvl] + "/" + dn)
    elif k == "rmdir":
        m.tainted_names.add(op[1])
    elif k == "rmtree":
        for q in [op[1]] + m_before.subtree(op[1]):
            if m_before.kind(q) == "d":
                m.tainted_names.add(q)
    elif k == "rename":
        s, d = op[1], op[2]
        if m_before.kind(s) == "d":
            m.tainted_names.add(s)
            m.taint(d)
            for q in m_before.subtree(s):
                if m_before.kind(q) == "d":
                    m.tainted_names.add(q)
                    m.taint(d + q[len(s):])
        elif m_before.kind(d) == "d":
            pass
    elif k == "moveout":
        s = op[1]
        if m_before.kind(s) == "d":
            m.tainted_names.add(s)
            m.taint(OUT + "/" + op[2])
            for q in m_before.subtree(s):
                if m_before.kind(q) == "d":
                    m.tainted_names.add(q)
                    m.taint(OUT + "/" + op[2] + q[len(s):])
    elif k == "moveback":
        if m.kind(op[2]) == "d":
            m.returned_ids.add(m.eid(op[2]))
            m.taint(op[2])
            m.tainted_names.add(op[1])
            for q in m.subtree(op[2]):
                if m.kind(q) == "d":
                    m.taint(q)
    elif k == "movein_tree":
        m.taint(op[2])
        for rel, kind in op[1]:
            if kind == "d":
                m.taint(op[2] + "/" + rel)
    elif k == "drain":
        m.drain()


TREE_SHAPES = [
    [],
    [["x", "d"], ["x/p", "s"], ["q", "s"]],
    [["g", "f"]],
    [["x", "d"]],
    [["x", "d"], ["x/f", "f"], ["g", "f"]],
    [["x", "d"], ["x/y", "d"], ["x/f", "f"], ["g", "f"]],
]

DEFAULT_WEIGHTS = {
    "mkfile": 3, "write": 2, "chmod": 1, "unlink": 2, "mkdir": 3, "makedirs": 1, "rmdir": 1, "rmtree": 1,
    "rename": 4, "moveout": 1, "movein_file": 1, "movein_tree": 1, "drain": 3, "burst": 1, "mkspecial": 1, "moveback": 1,
}


def gen_ops(rng: random.Random, m: Model, n, names=("a", "b", "c"), max_depth=3, weights=None, paced=True, drain_each=False, allow=None, paced_out=True):
    """Generate n operations against (and updating) model m, respecting the pacing rule."""
    w = dict(weights or DEFAULT_WEIGHTS)
    if allow is not None:
        w = {k: v for k, v in w.items() if k in allow}
    kinds = sorted(w)
    wl = [w[k] for k in kinds]
    ops = []
    outn = [0]
    moved_out_shapes = []
    attempts = 0
    while len(ops) < n and attempts < n * 40:
        attempts += 1
        k = rng.choices(kinds, wl)[0]
        dirs = [d for d in m.dirs_in(ROOT) if d.count("/") < max_depth]
        d = rng.choice(dirs)
        p = d + "/" + rng.choice(names)
        op = None
        if k in ("mkfile", "mkdir"):
            op = [k, p]
        elif k == "mkspecial":
            op = [k, p, rng.choice(["fifo", "symlink", "dirlink"])]
        elif k in ("write", "unlink"):
            fs = m.files_in(ROOT) + ([q for q in sorted(m.t) if is_under(q, ROOT) and m.t[q][0] == "s"] if k == "unlink" else [])
            if fs:
                op = [k, rng.choice(fs)]
        elif k == "chmod":
            es = [q for q in m.t if is_under(q, ROOT) and q != ROOT and m.t[q][0] != "s"]
            if es:
                op = [k, rng.choice(sorted(es))]
        elif k == "makedirs":
            depth_left = max_depth - d.count("/")
            if depth_left >= 2:
                chain = [rng.choice(names) for _ in range(rng.randrange(2, depth_left + 1))]
                op = [k, d, chain]
        elif k == "burst":
            depth_left = max_depth - d.count("/")
            if depth_left >= 1:
                chain = [rng.choice(names) for _ in range(rng.randrange(1, depth_left + 1))]
                files, extra, links = [], [], []
                for lvl in range(len(chain)):
                    for fn in names:
                        if lvl + 1 < len(chain) and chain[lvl + 1] == fn:
                            continue
                        r = rng.random()
                        if r < 0.35:
                            files.append([lvl, fn])
                        elif r < 0.55:
                            extra.append([lvl, fn])  # a sibling directory next to the chain
                        elif r < 0.62:
                            links.append([lvl, fn])  # a link to a directory (os.walk lists it among the directories)
                if files or extra or links:
                    op = [k, d, chain, files, extra] + ([links] if links else [])
        elif k == "rmdir":
            ds = [q for q in m.dirs_in(ROOT) if q != ROOT and not m.children(q)]
            if ds:
                op = [k, rng.choice(ds)]
        elif k == "rmtree":
            ds = [q for q in m.dirs_in(ROOT) if q != ROOT]
            if ds:
                op = [k, rng.choice(ds)]
        elif k == "rename":
            es = sorted(q for q in m.t if is_under(q, ROOT) and q != ROOT)
            if es:
                s = rng.choice(es)
                op = [k, s, p]
        elif k == "moveout":
            es = sorted(q for q in m.t if is_under(q, ROOT) and q != ROOT)
            if es:
                op = [k, rng.choice(es), f"o{outn[0]}"]
        elif k == "moveback":
            outs = sorted(q for q in m.t if parent(q) == OUT and q.startswith(OUT + "/o"))
            if outs:
                op = [k, rng.choice(outs), p]
        elif k == "movein_file":
            op = [k, f"s{outn[0]}", p]
        elif k == "movein_tree":
            shape = rng.choice(TREE_SHAPES)
            r = rng.random()
            if r < 0.3 and moved_out_shapes:
                shape = rng.choice(moved_out_shapes)  # a different tree with the names of one that left earlier
            elif r < 0.5:
                a, b = rng.choice(names), rng.choice(names)
                shape = rng.choice([[[a, "d"]], [[a, "d"], [a + "/" + b, "d"]], [[a, "d"], [a + "/" + b, "f"], [b, "f"]], [[a, "f"]]])
                if shape[-1][0] == shape[0][0] and len(shape) > 1:
                    shape = shape[:-1]
            op = [k, shape, p]
        elif k == "drain":
            if ops and ops[-1][0] != "drain":
                op = ["drain"]
        elif k in ("out_mkfile", "out_mkdir", "out_rmtree"):
            # operations on entries that have left the tree (C03 phantom events, C07 liveness)
            ods = [q for q in m.dirs_in(OUT) if q != OUT]
            if ods:
                od = rng.choice(ods)
                op = [k, od] if k == "out_rmtree" else [k, od + "/" + rng.choice(names)]
        if op is None or not valid(m, op, paced, paced_out):
            continue
        if op[0] == "rename" and m.kind(op[1]) == "d" and m.eid(op[1]) in m.tainted_ids and rng.random() < 0.5:
            continue  # renaming a just-arrived directory is allowed but not the common case
        if op[0] in ("moveout", "movein_file"):
            outn[0] += 1
        if op[0] == "moveout" and m.kind(op[1]) == "d":
            sub = [[q[len(op[1]) + 1:], m.kind(q)] for q in m.subtree(op[1])]
            if sub:
                moved_out_shapes.append(sub)
        before = Model.__new__(Model)
        before.t = dict(m.t)
        apply(m, op)
        taint_after(before, m, op)
        ops.append(op)
        if drain_each and op[0] != "drain":
            ops.append(["drain"])
            m.drain()
    return ops


def revalidate(pre_ops, ops, paced=True, paced_out=True):
    """Independent re-validation of a (possibly shrunk) history: returns the sub-list of ops whose pre-condition
    holds when replayed on the model (an operation whose pre-condition no longer holds is skipped)."""
    m = Model()
    for op in pre_ops:
        apply(m, op)
    kept = []
    for op in ops:
        if not valid(m, op, paced, paced_out):
            continue
        before = Model.__new__(Model)
        before.t = dict(m.t)
        apply(m, op)
        taint_after(before, m, op)
        kept.append(op)
    return kept, m


def all_ops(m: Model, names=("a", "b"), max_depth=2):
    """Every operation (of the C01 alphabet) whose pre-condition holds in state m over a tiny universe - used for
    the exhaustive enumeration of 1- and 2-operation histories."""
    out = []
    dirs = [d for d in m.dirs_in(ROOT) if d.count("/") < max_depth]
    ents = sorted(q for q in m.t if is_under(q, ROOT) and q != ROOT)
    for d in dirs:
        for n in names:
            p = d + "/" + n
            out += [["mkfile", p], ["mkdir", p], ["movein_file", "s0", p], ["movein_tree", TREE_SHAPES[3], p]]
            if max_depth - d.count("/") >= 2:
                out.append(["makedirs", d, [n, names[0]]])
            for s in ents:
                out.append(["rename", s, p])
    for e in ents:
        out += [["chmod", e], ["moveout", e, "o0"]]
        if m.kind(e) == "f":
            out += [["write", e], ["unlink", e]]
        else:
            out += [["rmdir", e], ["rmtree", e]]
    return [op for op in out if valid(m, op, paced=True)]


ENUM_PRE = [
    [],
    [["mkfile", "root/a"]],
    [["mkdir", "root/a"]],
    [["mkdir", "root/a"], ["mkfile", "root/a/b"], ["mkdir", "root/a/a"]],
    [["mkdir", "root/a"], ["mkdir", "root/b"], ["mkfile", "root/b/a"]],
]
_ENUM_CACHE = {}


def enum_histories():
    """All 1- and 2-operation histories (second operation with and without a drain in between) over ENUM_PRE."""
    if "h" in _ENUM_CACHE:
        return _ENUM_CACHE["h"]
    hs = []
    for pre in ENUM_PRE:
        m0 = Model()
        for op in pre:
            apply(m0, op)
        m0.drain()
        for op1 in all_ops(m0):
            hs.append((pre, [op1]))
            for drained in (True, False):
                m1 = Model()
                m1.t = dict(m0.t)
                m1.next_id = m0.next_id
                before = Model.__new__(Model)
                before.t = dict(m1.t)
                apply(m1, op1)
                taint_after(before, m1, op1)
                if drained:
                    m1.drain()
                for op2 in all_ops(m1):
                    if op2[0] in ("moveout", "movein_file") and op1[0] == op2[0]:
                        op2 = list(op2)
                        op2[1 if op2[0] == "movein_file" else 2] = "o1" if op2[0] == "moveout" else "s1"
                    hs.append((pre, [op1] + ([["drain"]] if drained else []) + [op2]))
    _ENUM_CACHE["h"] = hs
    return hs
