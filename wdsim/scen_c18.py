"""C18 - tricks: debounced batches complete and ordered; one child at a time; stop ends all (DESIGN.md 3.5)."""
from __future__ import annotations

import copy
import os as _os
import random
import types

from . import prims
from .core import DONE, TICKS
from .kshim import Proxy
from .scenario import Scenario, Violation, draw_sched, drop_each, key_of, simpler_sched


class ProcTable:
    """Simulated process table behind subprocess.Popen / os.killpg in watchdog.tricks."""

    def __init__(self, sim, behaviours):
        self.sim = sim
        self.behaviours = behaviours  # per spawn index: {"exit_after": ticks|None, "ignore_sig": bool, "die_delay": ticks}
        self.procs = []
        self.log = []
        self.max_alive = 0
        self.overlap = []
        self.poll_costs = []  # "slow system call" fault: virtual ticks the n-th Popen.poll() takes
        self.npoll = 0

    def alive(self):
        return [p for p in self.procs if p.exit_time is None or p.exit_time > self.sim.now]

    def popen(self, cmd, **kw):
        s = self.sim
        s.yield_point("popen")
        b = self.behaviours[len(self.procs) % len(self.behaviours)] if self.behaviours else {}
        p = FakePopen(self, 4000 + len(self.procs), b)
        others = self.alive()
        self.procs.append(p)
        self.log.append(("spawn", p.pid, s.now, s.next_seq()))
        s.rec("spawn", p.pid, s.now)
        n = len(others) + 1
        self.max_alive = max(self.max_alive, n)
        if others:
            self.overlap.append((p.pid, [o.pid for o in others], s.now))
        return p

    def find(self, pid):
        for p in self.procs:
            if p.pid == pid:
                return p
        return None

    def killpg(self, pgid, sig):
        s = self.sim
        s.yield_point("killpg")
        p = self.find(pgid)
        if p is None or p.reaped:
            raise ProcessLookupError(3, "No such process")
        self.log.append(("kill", p.pid, sig, s.now, s.next_seq()))
        s.rec("kill", p.pid, sig, s.now)
        if p.exit_time is not None and p.exit_time <= s.now:
            return
        if sig == 9:
            p.exit_time = s.now
            p.code = -9
        elif not p.b.get("ignore_sig"):
            t = s.now + p.b.get("die_delay", 0)
            if p.exit_time is None or t < p.exit_time:
                p.exit_time = t
                p.code = -sig

    def getpgid(self, pid):
        p = self.find(pid)
        if p is None or p.reaped:
            raise ProcessLookupError(3, "No such process")
        return pid


class FakePopen:
    def __init__(self, table, pid, b):
        self.table = table
        self.pid = pid
        self.b = b
        self.start = table.sim.now
        ea = b.get("exit_after")
        self.exit_time = None if ea is None else table.sim.now + ea
        self.code = 0
        self.reaped = False
        self.returncode = None

    def poll(self):
        s = self.table.sim
        s.yield_point("ppoll")
        t = self.table
        if t.poll_costs:
            cost = t.poll_costs[t.npoll % len(t.poll_costs)]
            t.npoll += 1
            if cost:
                s.fault_fired("slow_poll")
                s.sleep(cost / TICKS)
        if self.exit_time is not None and self.exit_time <= s.now:
            self.reaped = True
            self.returncode = self.code
            return self.code
        return None

    def wait(self, timeout=None):
        s = self.table.sim
        s.yield_point("pwait")
        while self.exit_time is None or self.exit_time > s.now:
            if self.exit_time is None:
                ok = s.block(lambda: self.exit_time is not None, timeout, why="proc-wait")
                if not ok:
                    raise TimeoutError
            else:
                s.sleep((self.exit_time - s.now) / TICKS)
        self.reaped = True
        self.returncode = self.code
        return self.code


class C18(Scenario):
    prop = "C18"
    level = "exploration"
    design_ref = "DESIGN.md 3.5, 4/C18"
    rule = ("three workloads by run index: EventDebouncer (event source with gaps around the debounce interval, start and stop racing it; in 35% of these runs events over a two-path alphabet, i.e. equal events also directly after one another), AutoRestartTrick (events, child behaviours: runs for ever / "
            "exits by itself at t / ignores the stop signal until SIGKILL / dies some ticks after the signal; kill_after, debounce interval and restart_on_command_exit seeded; stop() racing; "
            "Popen.poll() taking 0..300 ticks in 40% of the runs; an event delivered by a dispatcher thread around start() in 15%; a concurrent stop() from a second thread in 15%), "
            "ShellCommandTrick (wait_for_process / drop_during_process); distinct = distinct (workload+program digest, interleaving digest); non-trivial = a pre-emption was taken or a child "
            "exited by itself / ignored the signal")
    level_text = ("Seeded search over event/exit/stop sequences x interleavings on a virtual clock against a simulated process table; oracle: debouncer - every handled event in exactly one batch, "
                  "batches concatenate to arrival order, a batch only after a silent interval and exactly at last-arrival + interval, nothing after stop() returned, thread exits; auto-restart - never "
                  "two children alive (checked at every spawn), restarts == triggers when separated by quiescence, after stop() returned no child alive and none started later, helper threads gone; "
                  "shell command - never two commands alive with wait_for_process / drop_during_process.")
    level_note = "the process table is a stub for the OS (signals, exit, reaping); tricks, EventDebouncer, ProcessWatcher are the real code"
    components = {"real": ["watchdog.tricks.AutoRestartTrick/ShellCommandTrick", "watchdog.utils.event_debouncer.EventDebouncer", "watchdog.utils.process_watcher.ProcessWatcher", "watchdog.events.PatternMatchingEventHandler.dispatch"],
                  "simulated": ["subprocess.Popen / os.killpg / os.getpgid (process table)", "time.time / time.sleep", "threading primitives, scheduling with statement-level pre-emption"]}
    assumptions = ["events reach a trick from one dispatcher thread at a time (as in an observer)", "a process group id equals the child's pid"]
    budget = {"quick": 20, "thorough": 420, "minimise": 60}

    def gen_case(self, seed, tier, idx):
        rng = random.Random(f"{seed}:ops")
        cfg = random.Random(f"{seed}:cfg")
        mode = ["debouncer", "autorestart", "autorestart", "shell"][idx % 4]
        sched = draw_sched(cfg, line=True, pct_k=500, step_cap=200_000, horizon=3600)
        case = {"mode": mode, "sched": sched}
        if mode == "debouncer":
            iv = rng.choice([0, 1, 1, 2])
            d = iv * TICKS
            gaps = [0, 0, 1, d // 2, max(0, d - 1), d, d + 1, 2 * d + 3]
            case.update(interval=iv, events=[rng.choice(gaps) for _ in range(rng.randrange(0, 7))], start_first=rng.random() < 0.5,
                        stop_after=rng.choice([None, None, 0, 1, d // 2, d, 3 * d + 5]), pre_start_yields=rng.randrange(0, 4))
            erng = random.Random(f"{seed}:equal")
            if erng.random() < 0.35:
                # events that compare equal (same class, same path), also directly after one another: each one handed in is
                # owed to the callback; the harness tells them apart by object identity
                case["paths"] = [erng.choice([0, 0, 1]) for _ in case["events"]]
        elif mode == "autorestart":
            beh = []
            for _ in range(rng.randrange(1, 5)):
                r = rng.random()
                if r < 0.45:
                    beh.append({"exit_after": None, "ignore_sig": False, "die_delay": rng.choice([0, 0, 100, 300])})
                elif r < 0.7:
                    beh.append({"exit_after": rng.choice([50, 102, 103, 500, 2000]), "ignore_sig": False, "die_delay": rng.choice([0, 100])})
                else:
                    beh.append({"exit_after": None, "ignore_sig": True, "die_delay": 0})
            iv = rng.choice([0, 0, 1])
            evs = []
            for _ in range(rng.randrange(0, 5)):
                evs.append([rng.choice([0, 0, 1, 102, 103, 300, 1024, 3000]), rng.random() < 0.6])  # [gap ticks, drain afterwards?]
            case.update(behaviours=beh, debounce=iv, kill_after=rng.choice([0, 1, 10]), restart_on_exit=rng.random() < 0.6, events=evs,
                        final_gap=rng.choice([0, 1, 102, 500] + ([iv * TICKS - 1, iv * TICKS, iv * TICKS + 1] * 2 if iv else [])), second_stop=rng.random() < 0.2)
            xr = random.Random(f"{seed}:extra")
            if xr.random() < 0.15:
                case["early_event"] = xr.randrange(1, 6)
            if xr.random() < 0.15:
                case["concurrent_stop"] = xr.randrange(1, 8)
            if xr.random() < 0.1:
                case["stop_during_start"] = xr.randrange(1, 12)
                case["events"] = []
            frng = random.Random(f"{seed}:faults")
            if frng.random() < 0.4:
                # a system call that takes time: the clock moves between two statements of the caller
                case["poll_costs"] = [frng.choice([0, 0, 1, 5, 60, 130, 250, 300]) for _ in range(frng.randrange(1, 7))]
        else:
            beh = [{"exit_after": rng.choice([0, 50, 150, 400, 1500]), "ignore_sig": False, "die_delay": 0} for _ in range(rng.randrange(1, 4))]
            case.update(behaviours=beh, wait=rng.random() < 0.5, drop=rng.random() < 0.6, events=[rng.choice([0, 0, 10, 102, 150, 500]) for _ in range(rng.randrange(1, 6))])
            if not case["wait"] and not case["drop"]:
                case["drop"] = True
        return case

    def shrink(self, case):
        for cand in drop_each(case["events"]):
            c = copy.deepcopy(case)
            c["events"] = cand
            yield c
        if case.get("behaviours") and len(case["behaviours"]) > 1:
            for cand in drop_each(case["behaviours"]):
                c = copy.deepcopy(case)
                c["behaviours"] = cand
                yield c
        for i, e in enumerate(case["events"]):
            g = e if isinstance(e, int) else e[0]
            if g:
                c = copy.deepcopy(case)
                if isinstance(e, int):
                    c["events"][i] = 0
                else:
                    c["events"][i][0] = 0
                yield c
        yield from simpler_sched(case)

    # ------------------------------------------------------------------
    def run_case(self, case, sched_seed, trace=None):
        import watchdog.events as wev
        import watchdog.tricks as tricks
        import watchdog.utils.event_debouncer as edb
        import watchdog.utils.process_watcher as pw

        hist = {"batches": [], "handled": [], "stop": None, "calls": []}
        holder = {}

        def install(p, sim):
            prims.install_base(p, modules_threading=[tricks, edb], modules_time=[tricks])
            table = ProcTable(sim, case.get("behaviours") or [])
            table.poll_costs = case.get("poll_costs") or []
            holder["t"] = table
            p.set(tricks, "subprocess", types.SimpleNamespace(Popen=table.popen))
            p.set(tricks, "os", Proxy(_os, killpg=table.killpg, getpgid=table.getpgid, setsid=lambda: None))

        def main():
            sim = prims.cur_sim()
            if case["mode"] == "debouncer":
                self.run_debouncer(sim, case, hist, edb, wev)
            elif case["mode"] == "autorestart":
                self.run_autorestart(sim, case, hist, tricks, wev, holder["t"])
            else:
                self.run_shell(sim, case, hist, tricks, wev, holder["t"])
            hist["alive"] = [t.name for t in sim.tasks if t.kind == "lib" and t.state != DONE]
            hist["done"] = True

        def finish(sim, verdict):
            v = []
            if verdict is not None:
                kind, info = verdict
                who = sorted({f"{n.split('#')[0]}:{w}" for n, k, w in info}) if kind != "stepcap" else []
                v.append(Violation(kind, f"C18:{case['mode']}:{kind}:" + ",".join(who), str(info)))
                return v, {}
            for u in sim.uncaught:
                if u["kind"] != "actor":
                    fn = u["where"][-1][2] if u["where"] else "?"
                    v.append(Violation("uncaught", f"C18:{case['mode']}:uncaught:{u['task'].split('#')[0]}:{u['exc']}:{fn}", str(u)))
            if not v and hist.get("done"):
                v += getattr(self, "oracle_" + case["mode"])(case, hist, holder["t"], sim)
            t = holder["t"]
            return v, {"sample": {"mode": case["mode"], "events": case["events"], "proc_log": t.log[:12], "batches": hist["batches"][:6]},
                       "hist_key": key_of({k: x for k, x in case.items() if k != "sched"}), "nontrivial": any(b.get("exit_after") is not None or b.get("ignore_sig") for b in case.get("behaviours", []))}

        return self.simulate(case, sched_seed, trace, install, main, finish)

    # ------------------------------------------------------------------ debouncer
    def run_debouncer(self, sim, case, hist, edb, wev):
        objs = {}

        def cb(events):
            hist["batches"].append({"t": sim.now, "seq": sim.next_seq(), "ids": [objs.get(id(e), -1) for e in events]})
            sim.rec("batch", [e.src_path for e in events], sim.now)

        deb = edb.EventDebouncer(case["interval"], cb)

        def source():
            for i, gap in enumerate(case["events"]):
                if gap:
                    sim.sleep(gap / TICKS)
                else:
                    sim.yield_point("src")
                rec = {"id": i, "inv": sim.next_seq(), "t": sim.now}
                hist["handled"].append(rec)
                paths = case.get("paths")
                ev = wev.FileModifiedEvent(f"e{paths[i] if paths and i < len(paths) else i}")
                objs[id(ev)] = i
                hist.setdefault("keep", []).append(ev)  # keeps id() unique for the run
                deb.handle_event(ev)
                rec["ret"] = sim.next_seq()

        if case["start_first"]:
            deb.start()
            for _ in range(case["pre_start_yields"]):
                sim.yield_point("pre")
            src = sim.spawn(source, "source", "actor")
        else:
            src = sim.spawn(source, "source", "actor")
            for _ in range(case["pre_start_yields"]):
                sim.yield_point("pre")
            deb.start()
        if case["stop_after"] is None:
            sim.block(lambda: src.state == DONE, why="join-source")
            sim.wait_quiescent()  # all batches due have been delivered (timers expired)
        else:
            sim.sleep(case["stop_after"] / TICKS)
        hist["stop"] = {"inv": sim.next_seq(), "t": sim.now}
        deb.stop()
        hist["stop"]["ret"] = sim.next_seq()
        deb.join()
        sim.block(lambda: src.state == DONE, why="join-source")

    def oracle_debouncer(self, case, hist, table, sim):
        v = []
        iv = case["interval"] * TICKS
        stop = hist["stop"]
        flat = [i for b in hist["batches"] for i in b["ids"]]
        if len(flat) != len(set(flat)):
            v.append(Violation("dup", "C18:debouncer:event-in-two-batches", f"{hist['batches']}"))
        if flat != sorted(flat):
            v.append(Violation("order", "C18:debouncer:batches-out-of-arrival-order", f"{hist['batches']}"))
        for b in hist["batches"]:
            if b["seq"] > stop["ret"]:
                v.append(Violation("after-stop", "C18:debouncer:batch-after-stop-returned", f"{b} stop={stop}"))
            # an event that arrives at the very instant the silent interval expires may still join the batch (MAY)
            arr = [h for h in hist["handled"] if h["id"] in b["ids"] and h["t"] < b["t"]]
            if arr and iv:
                last = max(h["t"] for h in arr)
                if b["t"] < last + iv:
                    v.append(Violation("early", "C18:debouncer:batch-before-silent-interval", f"batch {b} last arrival {last} interval {iv}"))
                elif b["t"] > last + iv:
                    v.append(Violation("late", "C18:debouncer:batch-late", f"batch {b} delivered at {b['t']} but last arrival {last} + interval {iv}"))
        # completeness: an event handled certainly before stop() was invoked and whose silent interval elapsed before the stop
        handled = [h for h in hist["handled"] if "ret" in h]
        for h in handled:
            if h["id"] in flat:
                continue
            later = [x["t"] for x in handled if x["t"] >= h["t"]]
            quiet_at = max(later) + iv
            if h["ret"] < stop["inv"] and quiet_at < stop["t"]:
                started_late = not case["start_first"]
                v.append(Violation("lost", "C18:debouncer:event-never-delivered" + (":handled-before-thread-start" if started_late else ""), f"event {h} never delivered although stop() came at {stop['t']} (silent since {quiet_at}); batches={hist['batches']}"))
                break
        if hist["alive"]:
            v.append(Violation("alive", "C18:debouncer:thread-alive-after-stop", str(hist["alive"])))
        return v

    # ------------------------------------------------------------------ auto restart
    def run_autorestart(self, sim, case, hist, tricks, wev, table):
        tr = tricks.AutoRestartTrick(["cmd"], kill_after=case["kill_after"], debounce_interval_seconds=case["debounce"], restart_on_command_exit=case["restart_on_exit"])
        hist["triggers"] = 0
        hist["separated"] = True
        early = None
        if case.get("early_event"):
            # the observer is already running when the trick is started: its dispatcher thread delivers an event before /
            # while start() runs
            def early_src():
                for _ in range(case["early_event"] - 1):
                    sim.yield_point("src")
                tr.dispatch(wev.FileModifiedEvent("/x/early"))

            early = sim.spawn(early_src, "dispatcher", "actor")
            hist["separated"] = False
        starter_stop = None
        if case.get("stop_during_start"):
            # stop() (signal handler, another thread) while start() is still running
            def stop0():
                for _ in range(case["stop_during_start"] - 1):
                    sim.yield_point("stop0")
                tr.stop()

            starter_stop = sim.spawn(stop0, "stopper0", "actor")
            hist["separated"] = False
        tr.start()
        if starter_stop is not None:
            sim.block(lambda: starter_stop.state == DONE, why="join-stopper0")
        if early is not None:
            sim.block(lambda: early.state == DONE, why="join-early")
        for i, (gap, drain) in enumerate(case["events"]):
            if gap:
                sim.sleep(gap / TICKS)
            else:
                sim.yield_point("src")
            tr.dispatch(wev.FileModifiedEvent(f"/x/e{i}"))
            hist["triggers"] += 1
            if drain:
                self.settle(sim, case, table)
            else:
                hist["separated"] = False
        if case["final_gap"]:
            sim.sleep(case["final_gap"] / TICKS)
        hist["spawns_before_stop"] = len(table.procs)
        hist["stop"] = {"inv": sim.next_seq(), "t": sim.now}
        other = None
        if case.get("concurrent_stop"):
            # stop() from a second thread at the same time (signal handler + main thread): whichever call returns, no
            # child may be alive then
            def stop2():
                for _ in range(case["concurrent_stop"] - 1):
                    sim.yield_point("stop2")
                tr.stop()
                hist["alive_children_at_stop2_ret"] = [p.pid for p in table.alive()]

            other = sim.spawn(stop2, "stopper2", "actor")
        tr.stop()
        hist["stop"]["ret"] = sim.next_seq()
        hist["stop"]["t_ret"] = sim.now
        hist["alive_children_at_stop_ret"] = [p.pid for p in table.alive()]
        hist["lib_alive_at_stop_ret"] = [t.name for t in sim.tasks if t.kind == "lib" and t.state != DONE]
        hist["lib_alive_unsignalled"] = [t.name for t in sim.tasks if t.kind == "lib" and t.state != DONE and not t.thread_obj.stopped_event.is_set()]
        if other is not None:
            sim.block(lambda: other.state == DONE, why="join-stopper2")
        if case["second_stop"]:
            tr.stop()
        sim.sleep(3.0)  # nothing may be started later
        hist["spawns_after"] = len(table.procs)
        hist["restart_count"] = tr.restart_count

    @staticmethod
    def settle(sim, case, table):
        """Wait until the restart triggered by the last event is complete: debounce interval, kill_after and polling
        slack; self-exiting children keep the system busy for ever, so this is time-based, not quiescence."""
        sim.sleep(case["debounce"] + case["kill_after"] + 0.8)

    def oracle_autorestart(self, case, hist, table, sim):
        v = []
        if table.overlap:
            pid, others, t = table.overlap[0]
            selfexit = case["restart_on_exit"] and any(b.get("exit_after") is not None for b in case["behaviours"])
            v.append(Violation("two-children", "C18:autorestart:two-children-alive" + (":self-exit-restart-x-event-restart" if selfexit else ""), f"child {pid} spawned at {t} while {others} still alive; log={table.log}"))
        st = hist["stop"]
        if hist["alive_children_at_stop_ret"]:
            v.append(Violation("stop", "C18:autorestart:child-alive-after-stop-returned", f"{hist['alive_children_at_stop_ret']} log={table.log[-6:]}"))
        if hist.get("alive_children_at_stop2_ret"):
            v.append(Violation("stop", "C18:autorestart:child-alive-after-concurrent-stop-returned", f"{hist['alive_children_at_stop2_ret']} log={table.log[-6:]}"))
        if hist["spawns_after"] != len([p for p in table.procs if p.start <= st["t_ret"]]) or any(lg[0] == "spawn" and lg[3] > st["ret"] for lg in table.log):
            v.append(Violation("stop", "C18:autorestart:child-started-after-stop-returned", f"log={table.log[-6:]} stop={st}"))
        if hist["lib_alive_at_stop_ret"]:
            kind = "leaked" if hist["lib_alive_unsignalled"] else "signalled-not-yet-exited"
            v.append(Violation("stop", "C18:autorestart:helper-thread-alive-after-stop-returned:" + ",".join(sorted({n.split('#')[0] for n in hist["lib_alive_at_stop_ret"]})) + ":" + kind, str(hist["lib_alive_at_stop_ret"])))
        # restarts == triggers when every trigger was followed by a settle and no child exits by itself
        noself = not any(b.get("exit_after") is not None for b in case["behaviours"])
        if hist["separated"] and noself and not table.overlap:
            expect = 1 + hist["triggers"]
            if hist["spawns_before_stop"] != expect:
                v.append(Violation("count", "C18:autorestart:restarts!=triggers", f"{hist['spawns_before_stop'] - 1} restarts for {hist['triggers']} separated triggers; log={table.log}"))
        return v

    # ------------------------------------------------------------------ shell command
    def run_shell(self, sim, case, hist, tricks, wev, table):
        tr = tricks.ShellCommandTrick("cmd ${watch_src_path}", wait_for_process=case["wait"], drop_during_process=case["drop"])
        for i, gap in enumerate(case["events"]):
            if gap:
                sim.sleep(gap / TICKS)
            else:
                sim.yield_point("src")
            tr.dispatch(wev.FileModifiedEvent(f"/x/e{i}"))
        sim.sleep(5.0)

    def oracle_shell(self, case, hist, table, sim):
        v = []
        if table.overlap:
            pid, others, t = table.overlap[0]
            v.append(Violation("overlap", f"C18:shell:commands-overlap:wait={case['wait']}:drop={case['drop']}", f"command {pid} started at {t} while {others} still running; log={table.log}"))
        if hist["alive"]:
            v.append(Violation("alive", "C18:shell:watcher-alive-after-commands-ended", str(hist["alive"])))
        return v
