"""Statement-level pre-emption points by AST instrumentation of the watchdog sources at import time.

Why not sys.monitoring / sys.settrace: on CPython 3.12.1 the number of LINE events a function produces differs
between its first ("cold") and later executions in a process (observed: one event fewer for a line reached by a jump
the first time), which makes step numbers - and therefore replay files - depend on what the process ran before.
The determinism self-test caught it.  Instrumenting the source is exact: every statement inside a function body
of a watchdog module is preceded by a call to a hook, and the operands of `and` / `or` are separated by one, so
that races inside one boolean expression (SkipRepeatsQueue.put reads `_last_item` twice) are reachable.
Line numbers are preserved; nothing is written to disk; /repo is not modified.
"""
from __future__ import annotations

import ast
import importlib.abc
import importlib.machinery
import os
import sys

HOOK = "__wdsim_y__"
QUIET_HOOK = "__wdsim_q__"
_state = {"installed": False, "src": None, "stmts": 0, "modules": []}


_CUR = None  # prims.CURRENT, bound at install time (a module-level import per call would dominate the run time)


def _hook():
    """Pre-emption point.  No-op outside a run or when line-level pre-emption is off for the run."""
    sim = _CUR[0]
    if sim is not None and sim.cur is not None and not sim.quiet_depth:
        if sim.monitor_on:
            sim.line_event()
        else:
            # not a scheduling point in this run, but still a budget: a busy loop without any yield point must end
            # as a "stepcap" verdict, not as a worker that has to be killed
            sim.free_statements += 1
            if sim.free_statements > sim.free_statement_cap and not sim.aborting:
                sim._end_run(("stepcap", f"{sim.free_statements} statements executed"), sim.cur)
    return None


def _quiet(delta):
    sim = _CUR[0]
    if sim is not None:
        sim.quiet_depth = max(0, sim.quiet_depth + delta)


class _T(ast.NodeTransformer):
    def __init__(self):
        self.depth = 0
        self.count = 0

    def _call(self, ref):
        n = ast.Expr(ast.Call(ast.Name(HOOK, ast.Load()), [], []))
        return ast.copy_location(n, ref)

    def _instrument_body(self, body, skip_doc=False):
        out = []
        for i, st in enumerate(body):
            if isinstance(st, (ast.Global, ast.Nonlocal)):
                out.append(st)
                continue
            if skip_doc and i == 0 and isinstance(st, ast.Expr) and isinstance(getattr(st, "value", None), ast.Constant) and isinstance(st.value.value, str):
                out.append(st)
                continue
            self.count += 1
            out.append(self._call(st))
            out.append(st)
        return out

    QUIET = {"__eq__", "__ne__", "__lt__", "__le__", "__gt__", "__ge__"}

    def _visit_fn(self, node):
        # Comparison methods are called implicitly by dict and set operations; how often depends on hash collisions,
        # i.e. on PYTHONHASHSEED (a str path and the equal bytes path even hash alike, so two watches on one directory
        # given as str and as bytes always collide).  Pre-emption points reached from inside them would make step numbers
        # depend on the hash seed (found by selftest-determinism), so their bodies run "quiet": no hook fires until they
        # return.  __hash__ and property getters keep their hooks (one call per dict operation, independent of collisions):
        # a dict operation on keys with a Python-level __hash__ is not atomic, and races through it must stay reachable.
        if node.name in self.QUIET:
            quiet_on = ast.Expr(ast.Call(ast.Name(QUIET_HOOK, ast.Load()), [ast.Constant(1)], []))
            quiet_off = ast.Expr(ast.Call(ast.Name(QUIET_HOOK, ast.Load()), [ast.Constant(-1)], []))
            body = node.body
            node.body = [ast.copy_location(quiet_on, body[0]), ast.copy_location(ast.Try(body=body, handlers=[], orelse=[], finalbody=[quiet_off]), body[0])]
            return node
        self.depth += 1
        self.generic_visit(node)
        node.body = self._instrument_body(node.body, skip_doc=True)
        self.depth -= 1
        return node

    visit_FunctionDef = _visit_fn
    visit_AsyncFunctionDef = _visit_fn

    def generic_visit(self, node):
        super().generic_visit(node)
        if self.depth > 0 and not isinstance(node, (ast.FunctionDef, ast.AsyncFunctionDef, ast.Lambda, ast.ClassDef)):
            for field in ("body", "orelse", "finalbody"):
                b = getattr(node, field, None)
                if isinstance(b, list) and b and isinstance(b[0], ast.stmt):
                    setattr(node, field, self._instrument_body(b))
        return node

    def visit_ExceptHandler(self, node):
        super().generic_visit(node)
        if self.depth > 0:
            node.body = self._instrument_body(node.body)
        return node

    def visit_BoolOp(self, node):
        super().generic_visit(node)
        if self.depth > 0:
            vals = [node.values[0]]
            for v in node.values[1:]:
                self.count += 1
                call = ast.copy_location(ast.Call(ast.Name(HOOK, ast.Load()), [], []), v)
                vals.append(ast.copy_location(ast.BoolOp(ast.Or(), [call, v]), v))
            node.values = vals
        return node


def instrument_source(data, path):
    tree = ast.parse(data, path)
    t = _T()
    tree = t.visit(tree)
    ast.fix_missing_locations(tree)
    _state["stmts"] += t.count
    return compile(tree, path, "exec", dont_inherit=True)


class _Loader(importlib.machinery.SourceFileLoader):
    def get_code(self, fullname):
        path = self.get_filename(fullname)
        data = self.get_data(path)
        _state["modules"].append(fullname)
        return instrument_source(data, path)


class _Finder(importlib.abc.MetaPathFinder):
    def __init__(self, src):
        self.src = os.path.realpath(src)

    def find_spec(self, fullname, path, target=None):
        if fullname != "watchdog" and not fullname.startswith("watchdog."):
            return None
        spec = importlib.machinery.PathFinder.find_spec(fullname, path if path is not None else [self.src], target)
        if spec is None or not spec.origin or not spec.origin.endswith(".py"):
            return spec
        if not os.path.realpath(spec.origin).startswith(self.src + os.sep):
            return spec
        spec.loader = _Loader(fullname, spec.origin)
        return spec


def install(src):
    """Install the import hook (idempotent).  Must run before the first import of watchdog."""
    import builtins

    global _CUR
    from . import prims

    _CUR = prims.CURRENT
    if _state["installed"]:
        return
    for name in list(sys.modules):
        if name == "watchdog" or name.startswith("watchdog."):
            raise RuntimeError(f"{name} imported before the instrumentation hook was installed")
    setattr(builtins, HOOK, _hook)
    setattr(builtins, QUIET_HOOK, _quiet)
    sys.dont_write_bytecode = True
    sys.meta_path.insert(0, _Finder(src))
    _state["installed"] = True
    _state["src"] = src


def stats():
    return {"instrumented_modules": sorted(_state["modules"]), "pre_emption_points": _state["stmts"]}
