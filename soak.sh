#!/bin/sh
# Soak on the unchanged tree: every check under several base seeds; any non-zero exit is listed at the end.
# usage: ./soak.sh [first_seed] [last_seed] [budget_s]
A=${1:-2}; B=${2:-6}; BUD=${3:-30}
export WDSIM_NO_EVIDENCE=1 WDSIM_REPLAY_DIR=${WDSIM_REPLAY_DIR:-$PWD/soak-replays}
bad=0
for seed in $(seq $A $B); do
  for p in C01 C02 C03 C04 C05 C06 C07 C08 C10 C11 C12 C13 C14 C16 C17 C18 C19 C20; do
    out=$(./check $p --seed $seed --budget $BUD 2>&1); rc=$?
    echo "$out" | grep "^property=" | cut -c1-160
    if [ $rc -ne 0 ]; then bad=$((bad+1)); echo "SOAK-FAIL seed=$seed property=$p exit=$rc"; echo "$out" | grep -A1 "^VIOLATION\|HARNESS" | cut -c1-1500; fi
  done
done
echo "soak done: failures=$bad"
