#!/venv/bin/python
"""Regenerates MANIFEST.json from the registry (run after adding a scenario)."""
import json, os, sys
sys.path.insert(0, os.path.dirname(os.path.abspath(__file__)))
sys.path.insert(0, "/repo/src")
from wdsim import registry

NA = [
    {"property_id": "C09", "reason": "DirectorySnapshotDiff is a pure function of two snapshot values: no schedule, clock, fault or I/O for a simulator to control (DESIGN.md C09); its user-visible use through the polling emitter is covered by C10's independent reference diff."},
    {"property_id": "C15", "reason": "handler dispatch and pattern/regex matching are pure functions of (event, patterns, flags): no thread, clock, I/O or fault involved (DESIGN.md C15)."},
]
checks = []
for pid in registry.all_props():
    s = registry.get(pid)
    checks.append({
        "property_id": pid,
        "quick_cmd": f"./check {pid} --tier quick",
        "thorough_cmd": f"./check {pid} --tier thorough",
        "evidence_file": f"/verif/evidence/{pid}.json",
        "replay_cmd_template": f"./check {pid} --replay {{path}}",
        "engine": "wdsim",
        "level_claimed": {"category": s.level, "text": s.level_text, "design_ref": s.design_ref},
        "level_note": s.level_note,
        "technique": s.technique,
    })
claimed = {c["property_id"] for c in checks}
props = [json.loads(l)["id"] for l in open(os.path.join(os.path.dirname(os.path.abspath(__file__)), "properties.jsonl"))]
na = [e for e in NA if e["property_id"] not in claimed]
for p in props:
    if p not in claimed and p not in {e["property_id"] for e in na}:
        na.append({"property_id": p, "reason": "check not built yet in this revision (planned: DESIGN.md section 8); not claimed until its check exists"})
m = {
    "version": 1,
    "setup_cmd": "/venv/bin/python -m compileall -q wdsim && /venv/bin/python -c \"import sys; sys.path.insert(0, '/repo/src'); import watchdog.observers.api, watchdog.observers.inotify, watchdog.observers.polling, watchdog.tricks\"",
    "hooks": {
        "guard": "WATCHDOG_VERIF",
        "enable": "no source hooks exist: every seam is a module attribute rebound from outside by wdsim (DESIGN.md 2.2); checks import /repo/src directly",
        "baseline_off_cmd": "cd /repo && /venv/bin/python -m pytest -ra -q -p no:cacheprovider --timeout=900 --continue-on-collection-errors",
        "source_commits": [],
        "add_only": True,
    },
    "engines": [{"name": "wdsim", "path": "/verif/wdsim", "serves_properties": sorted(claimed), "kind_free_text": "deterministic simulation with fault injection: baton-passing real threads under a seeded scheduler (random/sticky/PCT, line and byte-code pre-emption through sys.monitoring), virtual clock, kernel shim over real inotify with virtual descriptors and fault plan, in-memory VFS, simulated process table; replay files with minimised schedule"}],
    "checks": checks,
    "not_applicable": na,
    "notes": "All checks: ./check <id> --tier quick|thorough; VERIF_SEED selects the base seed; exit 0 held / 1 VIOLATION / 2 HARNESS-ERROR. known_findings.json lists genuine defects recorded rather than repaired.",
}
json.dump(m, open(os.path.join(os.path.dirname(os.path.abspath(__file__)), "MANIFEST.json"), "w"), indent=1)
print("claimed", sorted(claimed), "na", [e["property_id"] for e in na])
